//! Mini-Lua: a tree-walking interpreter for the Lua 5.1 subset that Redis scripts of the
//! leader-lease adapter use (and a margin around it, so that small edits of the scripts are
//! still interpreted): locals, assignment, if/elseif/else, while, repeat, numeric and generic
//! `for`, functions/closures, tables, `#`, `..`, arithmetic, comparisons, `and/or/not`,
//! a few library functions, and the `redis.*` API with the Redis <-> Lua type conversions of
//! the Redis scripting documentation.
//!
//! Anything outside the subset is a *script error* ("ERR ... unsupported"), never silently
//! ignored. Strings are byte strings (block payloads are binary).

use std::{
    cell::RefCell,
    collections::BTreeMap,
    rc::Rc,
};

// ------------------------------------------------------------------------------------------
// Values
// ------------------------------------------------------------------------------------------

#[derive(Clone)]
pub enum Value {
    Nil,
    Bool(bool),
    Num(f64),
    Str(Rc<Vec<u8>>),
    Table(Rc<RefCell<Table>>),
    Builtin(&'static str),
    Func(Rc<Closure>),
}

pub struct Closure {
    params: Vec<String>,
    body: Rc<Vec<Stmt>>,
    env: Env,
}

#[derive(Clone, PartialEq, Eq, PartialOrd, Ord)]
enum Key {
    Bool(bool),
    Num(u64), // ordered bits of a non-integer-array key
    Str(Vec<u8>),
}

#[derive(Default)]
pub struct Table {
    arr: Vec<Value>,
    hash: BTreeMap<Key, Value>,
}

fn num_key(n: f64) -> Key {
    // total order preserving transform of the bits (only used for determinism of `pairs`)
    let b = n.to_bits();
    let k = if b >> 63 == 1 { !b } else { b | (1 << 63) };
    Key::Num(k)
}

impl Table {
    pub fn new() -> Self {
        Table::default()
    }
    pub fn from_array(v: Vec<Value>) -> Self {
        let mut t = Table::new();
        for (i, x) in v.into_iter().enumerate() {
            t.set(Value::Num((i + 1) as f64), x);
        }
        t
    }
    pub fn len(&self) -> usize {
        self.arr.len()
    }
    fn key_of(k: &Value) -> Result<Option<Key>, String> {
        Ok(match k {
            Value::Nil => return Err("table index is nil".into()),
            Value::Bool(b) => Some(Key::Bool(*b)),
            Value::Num(n) => {
                if n.is_nan() {
                    return Err("table index is NaN".into());
                }
                Some(num_key(*n))
            }
            Value::Str(s) => Some(Key::Str(s.as_ref().clone())),
            _ => return Err("unsupported table key type".into()),
        })
    }
    pub fn get(&self, k: &Value) -> Value {
        if let Value::Num(n) = k {
            if n.fract() == 0.0 && *n >= 1.0 && (*n as usize) <= self.arr.len() {
                return self.arr[*n as usize - 1].clone();
            }
        }
        match Self::key_of(k) {
            Ok(Some(key)) => self.hash.get(&key).cloned().unwrap_or(Value::Nil),
            _ => Value::Nil,
        }
    }
    pub fn get_str(&self, k: &str) -> Value {
        self.hash
            .get(&Key::Str(k.as_bytes().to_vec()))
            .cloned()
            .unwrap_or(Value::Nil)
    }
    pub fn set(&mut self, k: Value, v: Value) {
        if let Value::Num(n) = &k {
            if n.fract() == 0.0 && *n >= 1.0 {
                let idx = *n as usize;
                if idx <= self.arr.len() {
                    if matches!(v, Value::Nil) && idx == self.arr.len() {
                        self.arr.pop();
                        // keep the array part dense: trailing nils are dropped
                        while matches!(self.arr.last(), Some(Value::Nil)) {
                            self.arr.pop();
                        }
                    } else {
                        self.arr[idx - 1] = v;
                    }
                    return;
                }
                if idx == self.arr.len() + 1 {
                    if matches!(v, Value::Nil) {
                        self.hash.remove(&num_key(*n));
                        return;
                    }
                    self.hash.remove(&num_key(*n));
                    self.arr.push(v);
                    // migrate successors from the hash part
                    loop {
                        let next = (self.arr.len() + 1) as f64;
                        match self.hash.remove(&num_key(next)) {
                            Some(x) => self.arr.push(x),
                            None => break,
                        }
                    }
                    return;
                }
            }
        }
        if let Ok(Some(key)) = Self::key_of(&k) {
            if matches!(v, Value::Nil) {
                self.hash.remove(&key);
            } else {
                self.hash.insert(key, v);
            }
        }
    }
    pub fn array(&self) -> &[Value] {
        &self.arr
    }
}

impl Value {
    pub fn str(s: &[u8]) -> Value {
        Value::Str(Rc::new(s.to_vec()))
    }
    pub fn table(t: Table) -> Value {
        Value::Table(Rc::new(RefCell::new(t)))
    }
    pub fn truthy(&self) -> bool {
        !matches!(self, Value::Nil | Value::Bool(false))
    }
    pub fn type_name(&self) -> &'static str {
        match self {
            Value::Nil => "nil",
            Value::Bool(_) => "boolean",
            Value::Num(_) => "number",
            Value::Str(_) => "string",
            Value::Table(_) => "table",
            Value::Builtin(_) | Value::Func(_) => "function",
        }
    }
}

fn raw_eq(a: &Value, b: &Value) -> bool {
    match (a, b) {
        (Value::Nil, Value::Nil) => true,
        (Value::Bool(x), Value::Bool(y)) => x == y,
        (Value::Num(x), Value::Num(y)) => x == y,
        (Value::Str(x), Value::Str(y)) => x == y,
        (Value::Table(x), Value::Table(y)) => Rc::ptr_eq(x, y),
        (Value::Builtin(x), Value::Builtin(y)) => x == y,
        (Value::Func(x), Value::Func(y)) => Rc::ptr_eq(x, y),
        _ => false,
    }
}

/// Lua's `%.14g` number formatting (LUA_NUMBER_FMT).
pub fn fmt_number(n: f64) -> String {
    if n.is_nan() {
        return if n.is_sign_negative() { "-nan".into() } else { "nan".into() };
    }
    if n.is_infinite() {
        return if n > 0.0 { "inf".into() } else { "-inf".into() };
    }
    if n == 0.0 {
        return if n.is_sign_negative() { "-0".into() } else { "0".into() };
    }
    // %.14g: 14 significant digits
    let s = format!("{:.13e}", n); // d.ddddddddddddde[-]x
    let (mant, exp) = s.split_once('e').unwrap();
    let exp: i32 = exp.parse().unwrap();
    let neg = mant.starts_with('-');
    let digits: String = mant.chars().filter(|c| c.is_ascii_digit()).collect(); // 14 digits
    let mut out = String::new();
    if neg {
        out.push('-');
    }
    if exp < -4 || exp >= 14 {
        // exponential form, trailing zeros stripped
        let d = digits.trim_end_matches('0');
        let d = if d.is_empty() { "0" } else { d };
        out.push_str(&d[..1]);
        if d.len() > 1 {
            out.push('.');
            out.push_str(&d[1..]);
        }
        out.push('e');
        out.push(if exp < 0 { '-' } else { '+' });
        out.push_str(&format!("{:02}", exp.abs()));
    } else if exp >= 0 {
        let int_len = exp as usize + 1;
        out.push_str(&digits[..int_len]);
        let frac = digits[int_len..].trim_end_matches('0');
        if !frac.is_empty() {
            out.push('.');
            out.push_str(frac);
        }
    } else {
        out.push_str("0.");
        for _ in 0..(-exp - 1) {
            out.push('0');
        }
        out.push_str(digits.trim_end_matches('0'));
    }
    out
}

/// Lua's string -> number conversion (`tonumber` with base 10 / arithmetic coercion).
pub fn str_to_number(s: &[u8]) -> Option<f64> {
    let t = std::str::from_utf8(s).ok()?;
    let t = t.trim_matches(|c: char| c == ' ' || ('\t'..='\r').contains(&c));
    if t.is_empty() {
        return None;
    }
    let (neg, body) = if let Some(r) = t.strip_prefix('-') {
        (true, r)
    } else if let Some(r) = t.strip_prefix('+') {
        (false, r)
    } else {
        (false, t)
    };
    let v = if let Some(h) = body.strip_prefix("0x").or_else(|| body.strip_prefix("0X")) {
        if h.is_empty() || !h.chars().all(|c| c.is_ascii_hexdigit()) {
            return None;
        }
        u64::from_str_radix(h, 16).ok()? as f64
    } else {
        // only the decimal grammar: digits [. digits] [e[+-]digits]
        let ok = {
            let b = body.as_bytes();
            let mut i = 0;
            let mut nd = 0;
            while i < b.len() && b[i].is_ascii_digit() {
                i += 1;
                nd += 1;
            }
            if i < b.len() && b[i] == b'.' {
                i += 1;
                while i < b.len() && b[i].is_ascii_digit() {
                    i += 1;
                    nd += 1;
                }
            }
            let mut ok = nd > 0;
            if ok && i < b.len() && (b[i] == b'e' || b[i] == b'E') {
                i += 1;
                if i < b.len() && (b[i] == b'+' || b[i] == b'-') {
                    i += 1;
                }
                let mut ne = 0;
                while i < b.len() && b[i].is_ascii_digit() {
                    i += 1;
                    ne += 1;
                }
                ok = ne > 0;
            }
            ok && i == b.len()
        };
        if !ok {
            return None;
        }
        body.parse::<f64>().ok()?
    };
    Some(if neg { -v } else { v })
}

// ------------------------------------------------------------------------------------------
// Lexer
// ------------------------------------------------------------------------------------------

#[derive(Clone, Debug, PartialEq)]
enum Tok {
    Name(String),
    Num(f64),
    Str(Vec<u8>),
    Kw(&'static str),
    Op(&'static str),
    Eof,
}

const KEYWORDS: &[&str] = &[
    "and", "break", "do", "else", "elseif", "end", "false", "for", "function", "if", "in",
    "local", "nil", "not", "or", "repeat", "return", "then", "true", "until", "while",
];

const OPS: &[&str] = &[
    "...", "..", "==", "~=", "<=", ">=", "+", "-", "*", "/", "%", "^", "#", "<", ">", "=", "(",
    ")", "{", "}", "[", "]", ";", ":", ",", ".",
];

fn lex(src: &[u8]) -> Result<Vec<(Tok, u32)>, String> {
    let mut out = Vec::new();
    let mut i = 0;
    let mut line = 1u32;
    let n = src.len();
    while i < n {
        let c = src[i];
        if c == b'\n' {
            line += 1;
            i += 1;
            continue;
        }
        if c == b' ' || c == b'\t' || c == b'\r' {
            i += 1;
            continue;
        }
        if c == b'-' && i + 1 < n && src[i + 1] == b'-' {
            // comment
            i += 2;
            if i + 1 < n && src[i] == b'[' && src[i + 1] == b'[' {
                i += 2;
                while i + 1 < n && !(src[i] == b']' && src[i + 1] == b']') {
                    if src[i] == b'\n' {
                        line += 1;
                    }
                    i += 1;
                }
                i = (i + 2).min(n);
            } else {
                while i < n && src[i] != b'\n' {
                    i += 1;
                }
            }
            continue;
        }
        if c.is_ascii_alphabetic() || c == b'_' {
            let s = i;
            while i < n && (src[i].is_ascii_alphanumeric() || src[i] == b'_') {
                i += 1;
            }
            let w = std::str::from_utf8(&src[s..i]).unwrap();
            if let Some(k) = KEYWORDS.iter().find(|k| **k == w) {
                out.push((Tok::Kw(k), line));
            } else {
                out.push((Tok::Name(w.to_string()), line));
            }
            continue;
        }
        if c.is_ascii_digit() || (c == b'.' && i + 1 < n && src[i + 1].is_ascii_digit()) {
            let s = i;
            if c == b'0' && i + 1 < n && (src[i + 1] == b'x' || src[i + 1] == b'X') {
                i += 2;
                while i < n && src[i].is_ascii_hexdigit() {
                    i += 1;
                }
            } else {
                while i < n && (src[i].is_ascii_digit() || src[i] == b'.') {
                    i += 1;
                }
                if i < n && (src[i] == b'e' || src[i] == b'E') {
                    i += 1;
                    if i < n && (src[i] == b'+' || src[i] == b'-') {
                        i += 1;
                    }
                    while i < n && src[i].is_ascii_digit() {
                        i += 1;
                    }
                }
            }
            let v = str_to_number(&src[s..i])
                .ok_or_else(|| format!("line {line}: malformed number"))?;
            out.push((Tok::Num(v), line));
            continue;
        }
        if c == b'"' || c == b'\'' {
            let q = c;
            i += 1;
            let mut s = Vec::new();
            loop {
                if i >= n || src[i] == b'\n' {
                    return Err(format!("line {line}: unfinished string"));
                }
                let ch = src[i];
                if ch == q {
                    i += 1;
                    break;
                }
                if ch == b'\\' {
                    i += 1;
                    if i >= n {
                        return Err(format!("line {line}: unfinished string"));
                    }
                    let e = src[i];
                    i += 1;
                    match e {
                        b'n' => s.push(b'\n'),
                        b't' => s.push(b'\t'),
                        b'r' => s.push(b'\r'),
                        b'a' => s.push(7),
                        b'b' => s.push(8),
                        b'f' => s.push(12),
                        b'v' => s.push(11),
                        b'\\' => s.push(b'\\'),
                        b'"' => s.push(b'"'),
                        b'\'' => s.push(b'\''),
                        b'\n' => {
                            line += 1;
                            s.push(b'\n')
                        }
                        d if d.is_ascii_digit() => {
                            let mut v = (d - b'0') as u32;
                            let mut k = 0;
                            while k < 2 && i < n && src[i].is_ascii_digit() {
                                v = v * 10 + (src[i] - b'0') as u32;
                                i += 1;
                                k += 1;
                            }
                            if v > 255 {
                                return Err(format!("line {line}: escape sequence too large"));
                            }
                            s.push(v as u8);
                        }
                        _ => return Err(format!("line {line}: invalid escape sequence")),
                    }
                    continue;
                }
                s.push(ch);
                i += 1;
            }
            out.push((Tok::Str(s), line));
            continue;
        }
        if c == b'[' && i + 1 < n && src[i + 1] == b'[' {
            i += 2;
            let s = i;
            while i + 1 < n && !(src[i] == b']' && src[i + 1] == b']') {
                if src[i] == b'\n' {
                    line += 1;
                }
                i += 1;
            }
            if i + 1 >= n {
                return Err(format!("line {line}: unfinished long string"));
            }
            let mut body = &src[s..i];
            if body.first() == Some(&b'\n') {
                body = &body[1..];
            }
            out.push((Tok::Str(body.to_vec()), line));
            i += 2;
            continue;
        }
        let mut matched = false;
        for op in OPS {
            let b = op.as_bytes();
            if src[i..].starts_with(b) {
                out.push((Tok::Op(op), line));
                i += b.len();
                matched = true;
                break;
            }
        }
        if !matched {
            return Err(format!("line {line}: unexpected symbol near '{}'", c as char));
        }
    }
    out.push((Tok::Eof, line));
    Ok(out)
}

// ------------------------------------------------------------------------------------------
// AST + parser
// ------------------------------------------------------------------------------------------

#[derive(Debug)]
enum Expr {
    Nil,
    True,
    False,
    Num(f64),
    Str(Rc<Vec<u8>>),
    Name(String),
    Index(Box<Expr>, Box<Expr>, u32),
    Call(Box<Expr>, Vec<Expr>, u32),
    Function(Vec<String>, Rc<Vec<Stmt>>),
    Bin(&'static str, Box<Expr>, Box<Expr>, u32),
    Un(&'static str, Box<Expr>, u32),
    And(Box<Expr>, Box<Expr>),
    Or(Box<Expr>, Box<Expr>),
    TableCons(Vec<(Option<Expr>, Expr)>),
    Paren(Box<Expr>),
}

#[derive(Debug)]
enum Stmt {
    Local(Vec<String>, Vec<Expr>),
    LocalFunction(String, Vec<String>, Rc<Vec<Stmt>>),
    Assign(Vec<Expr>, Vec<Expr>, u32),
    Call(Expr),
    If(Vec<(Expr, Vec<Stmt>)>, Option<Vec<Stmt>>),
    While(Expr, Vec<Stmt>),
    Repeat(Vec<Stmt>, Expr),
    NumFor(String, Expr, Expr, Option<Expr>, Vec<Stmt>, u32),
    GenFor(Vec<String>, Vec<Expr>, Vec<Stmt>, u32),
    Do(Vec<Stmt>),
    Return(Vec<Expr>),
    Break,
}

struct Parser {
    toks: Vec<(Tok, u32)>,
    pos: usize,
}

impl Parser {
    fn peek(&self) -> &Tok {
        &self.toks[self.pos].0
    }
    fn line(&self) -> u32 {
        self.toks[self.pos].1
    }
    fn next(&mut self) -> Tok {
        let t = self.toks[self.pos].0.clone();
        if self.pos + 1 < self.toks.len() {
            self.pos += 1;
        }
        t
    }
    fn err<T>(&self, msg: &str) -> Result<T, String> {
        Err(format!("line {}: {} near {:?}", self.line(), msg, self.peek()))
    }
    fn is_op(&self, op: &str) -> bool {
        matches!(self.peek(), Tok::Op(o) if *o == op)
    }
    fn is_kw(&self, kw: &str) -> bool {
        matches!(self.peek(), Tok::Kw(k) if *k == kw)
    }
    fn accept_op(&mut self, op: &str) -> bool {
        if self.is_op(op) {
            self.next();
            true
        } else {
            false
        }
    }
    fn accept_kw(&mut self, kw: &str) -> bool {
        if self.is_kw(kw) {
            self.next();
            true
        } else {
            false
        }
    }
    fn expect_op(&mut self, op: &str) -> Result<(), String> {
        if self.accept_op(op) { Ok(()) } else { self.err(&format!("'{op}' expected")) }
    }
    fn expect_kw(&mut self, kw: &str) -> Result<(), String> {
        if self.accept_kw(kw) { Ok(()) } else { self.err(&format!("'{kw}' expected")) }
    }
    fn name(&mut self) -> Result<String, String> {
        match self.next() {
            Tok::Name(n) => Ok(n),
            _ => {
                self.pos = self.pos.saturating_sub(1);
                self.err("<name> expected")
            }
        }
    }

    fn block_end(&self) -> bool {
        matches!(
            self.peek(),
            Tok::Eof | Tok::Kw("end") | Tok::Kw("else") | Tok::Kw("elseif") | Tok::Kw("until")
        )
    }

    fn block(&mut self) -> Result<Vec<Stmt>, String> {
        let mut out = Vec::new();
        while !self.block_end() {
            if self.is_kw("return") {
                self.next();
                let mut es = Vec::new();
                if !self.block_end() && !self.is_op(";") {
                    es = self.exprlist()?;
                }
                self.accept_op(";");
                out.push(Stmt::Return(es));
                if !self.block_end() {
                    return self.err("'end' expected after return");
                }
                break;
            }
            if self.is_kw("break") {
                self.next();
                self.accept_op(";");
                out.push(Stmt::Break);
                continue;
            }
            let s = self.statement()?;
            self.accept_op(";");
            out.push(s);
        }
        Ok(out)
    }

    fn funcbody(&mut self) -> Result<(Vec<String>, Rc<Vec<Stmt>>), String> {
        self.expect_op("(")?;
        let mut params = Vec::new();
        if !self.is_op(")") {
            loop {
                if self.is_op("...") {
                    return self.err("varargs are not supported by the mini-Lua interpreter");
                }
                params.push(self.name()?);
                if !self.accept_op(",") {
                    break;
                }
            }
        }
        self.expect_op(")")?;
        let body = self.block()?;
        self.expect_kw("end")?;
        Ok((params, Rc::new(body)))
    }

    fn statement(&mut self) -> Result<Stmt, String> {
        let line = self.line();
        if self.accept_kw("local") {
            if self.accept_kw("function") {
                let n = self.name()?;
                let (p, b) = self.funcbody()?;
                return Ok(Stmt::LocalFunction(n, p, b));
            }
            let mut names = vec![self.name()?];
            while self.accept_op(",") {
                names.push(self.name()?);
            }
            let exprs = if self.accept_op("=") { self.exprlist()? } else { Vec::new() };
            return Ok(Stmt::Local(names, exprs));
        }
        if self.accept_kw("function") {
            let n = self.name()?;
            let mut target = Expr::Name(n);
            while self.accept_op(".") {
                let f = self.name()?;
                target = Expr::Index(
                    Box::new(target),
                    Box::new(Expr::Str(Rc::new(f.into_bytes()))),
                    line,
                );
            }
            if self.is_op(":") {
                return self.err("method definitions are not supported");
            }
            let (p, b) = self.funcbody()?;
            return Ok(Stmt::Assign(vec![target], vec![Expr::Function(p, b)], line));
        }
        if self.accept_kw("if") {
            let mut arms = Vec::new();
            let c = self.expr()?;
            self.expect_kw("then")?;
            let b = self.block()?;
            arms.push((c, b));
            let mut els = None;
            loop {
                if self.accept_kw("elseif") {
                    let c = self.expr()?;
                    self.expect_kw("then")?;
                    let b = self.block()?;
                    arms.push((c, b));
                } else if self.accept_kw("else") {
                    els = Some(self.block()?);
                    self.expect_kw("end")?;
                    break;
                } else {
                    self.expect_kw("end")?;
                    break;
                }
            }
            return Ok(Stmt::If(arms, els));
        }
        if self.accept_kw("while") {
            let c = self.expr()?;
            self.expect_kw("do")?;
            let b = self.block()?;
            self.expect_kw("end")?;
            return Ok(Stmt::While(c, b));
        }
        if self.accept_kw("repeat") {
            let b = self.block()?;
            self.expect_kw("until")?;
            let c = self.expr()?;
            return Ok(Stmt::Repeat(b, c));
        }
        if self.accept_kw("do") {
            let b = self.block()?;
            self.expect_kw("end")?;
            return Ok(Stmt::Do(b));
        }
        if self.accept_kw("for") {
            let n1 = self.name()?;
            if self.accept_op("=") {
                let a = self.expr()?;
                self.expect_op(",")?;
                let b = self.expr()?;
                let c = if self.accept_op(",") { Some(self.expr()?) } else { None };
                self.expect_kw("do")?;
                let body = self.block()?;
                self.expect_kw("end")?;
                return Ok(Stmt::NumFor(n1, a, b, c, body, line));
            }
            let mut names = vec![n1];
            while self.accept_op(",") {
                names.push(self.name()?);
            }
            self.expect_kw("in")?;
            let es = self.exprlist()?;
            self.expect_kw("do")?;
            let body = self.block()?;
            self.expect_kw("end")?;
            return Ok(Stmt::GenFor(names, es, body, line));
        }
        // assignment or call
        let e = self.suffixedexp()?;
        if self.is_op("=") || self.is_op(",") {
            let mut targets = vec![e];
            while self.accept_op(",") {
                targets.push(self.suffixedexp()?);
            }
            self.expect_op("=")?;
            let es = self.exprlist()?;
            for t in &targets {
                if !matches!(t, Expr::Name(_) | Expr::Index(..)) {
                    return self.err("cannot assign to this expression");
                }
            }
            return Ok(Stmt::Assign(targets, es, line));
        }
        match e {
            Expr::Call(..) => Ok(Stmt::Call(e)),
            _ => self.err("syntax error (expression is not a statement)"),
        }
    }

    fn exprlist(&mut self) -> Result<Vec<Expr>, String> {
        let mut v = vec![self.expr()?];
        while self.accept_op(",") {
            v.push(self.expr()?);
        }
        Ok(v)
    }

    fn primaryexp(&mut self) -> Result<Expr, String> {
        match self.peek().clone() {
            Tok::Name(n) => {
                self.next();
                Ok(Expr::Name(n))
            }
            Tok::Op("(") => {
                self.next();
                let e = self.expr()?;
                self.expect_op(")")?;
                Ok(Expr::Paren(Box::new(e)))
            }
            _ => self.err("unexpected symbol"),
        }
    }

    fn suffixedexp(&mut self) -> Result<Expr, String> {
        let mut e = self.primaryexp()?;
        loop {
            let line = self.line();
            if self.accept_op(".") {
                let n = self.name()?;
                e = Expr::Index(
                    Box::new(e),
                    Box::new(Expr::Str(Rc::new(n.into_bytes()))),
                    line,
                );
            } else if self.accept_op("[") {
                let k = self.expr()?;
                self.expect_op("]")?;
                e = Expr::Index(Box::new(e), Box::new(k), line);
            } else if self.is_op("(") {
                self.next();
                let mut args = Vec::new();
                if !self.is_op(")") {
                    args = self.exprlist()?;
                }
                self.expect_op(")")?;
                e = Expr::Call(Box::new(e), args, line);
            } else if let Tok::Str(s) = self.peek().clone() {
                self.next();
                e = Expr::Call(Box::new(e), vec![Expr::Str(Rc::new(s))], line);
            } else if self.is_op("{") {
                let t = self.tablecons()?;
                e = Expr::Call(Box::new(e), vec![t], line);
            } else if self.is_op(":") {
                return self.err("method calls are not supported by the mini-Lua interpreter");
            } else {
                return Ok(e);
            }
        }
    }

    fn tablecons(&mut self) -> Result<Expr, String> {
        self.expect_op("{")?;
        let mut items = Vec::new();
        while !self.is_op("}") {
            if self.is_op("[") {
                self.next();
                let k = self.expr()?;
                self.expect_op("]")?;
                self.expect_op("=")?;
                let v = self.expr()?;
                items.push((Some(k), v));
            } else if matches!(self.peek(), Tok::Name(_))
                && matches!(self.toks.get(self.pos + 1), Some((Tok::Op("="), _)))
            {
                let n = self.name()?;
                self.expect_op("=")?;
                let v = self.expr()?;
                items.push((Some(Expr::Str(Rc::new(n.into_bytes()))), v));
            } else {
                let v = self.expr()?;
                items.push((None, v));
            }
            if !(self.accept_op(",") || self.accept_op(";")) {
                break;
            }
        }
        self.expect_op("}")?;
        Ok(Expr::TableCons(items))
    }

    fn simpleexp(&mut self) -> Result<Expr, String> {
        match self.peek().clone() {
            Tok::Num(n) => {
                self.next();
                Ok(Expr::Num(n))
            }
            Tok::Str(s) => {
                self.next();
                Ok(Expr::Str(Rc::new(s)))
            }
            Tok::Kw("nil") => {
                self.next();
                Ok(Expr::Nil)
            }
            Tok::Kw("true") => {
                self.next();
                Ok(Expr::True)
            }
            Tok::Kw("false") => {
                self.next();
                Ok(Expr::False)
            }
            Tok::Op("{") => self.tablecons(),
            Tok::Kw("function") => {
                self.next();
                let (p, b) = self.funcbody()?;
                Ok(Expr::Function(p, b))
            }
            Tok::Op("...") => self.err("varargs are not supported by the mini-Lua interpreter"),
            _ => self.suffixedexp(),
        }
    }

    fn expr(&mut self) -> Result<Expr, String> {
        self.subexpr(0)
    }

    // precedence: (left, right)
    fn binprec(op: &Tok) -> Option<(&'static str, u8, u8)> {
        Some(match op {
            Tok::Kw("or") => ("or", 1, 1),
            Tok::Kw("and") => ("and", 2, 2),
            Tok::Op("<") => ("<", 3, 3),
            Tok::Op(">") => (">", 3, 3),
            Tok::Op("<=") => ("<=", 3, 3),
            Tok::Op(">=") => (">=", 3, 3),
            Tok::Op("~=") => ("~=", 3, 3),
            Tok::Op("==") => ("==", 3, 3),
            Tok::Op("..") => ("..", 5, 4), // right associative
            Tok::Op("+") => ("+", 6, 6),
            Tok::Op("-") => ("-", 6, 6),
            Tok::Op("*") => ("*", 7, 7),
            Tok::Op("/") => ("/", 7, 7),
            Tok::Op("%") => ("%", 7, 7),
            Tok::Op("^") => ("^", 10, 9), // right associative
            _ => return None,
        })
    }

    fn subexpr(&mut self, limit: u8) -> Result<Expr, String> {
        const UNARY_PREC: u8 = 8;
        let line = self.line();
        let mut left = if self.accept_kw("not") {
            Expr::Un("not", Box::new(self.subexpr(UNARY_PREC)?), line)
        } else if self.accept_op("-") {
            Expr::Un("-", Box::new(self.subexpr(UNARY_PREC)?), line)
        } else if self.accept_op("#") {
            Expr::Un("#", Box::new(self.subexpr(UNARY_PREC)?), line)
        } else {
            self.simpleexp()?
        };
        loop {
            let Some((op, lp, rp)) = Self::binprec(self.peek()) else {
                break;
            };
            if lp <= limit {
                break;
            }
            let line = self.line();
            self.next();
            let right = self.subexpr(rp)?;
            left = match op {
                "and" => Expr::And(Box::new(left), Box::new(right)),
                "or" => Expr::Or(Box::new(left), Box::new(right)),
                _ => Expr::Bin(op, Box::new(left), Box::new(right), line),
            };
        }
        Ok(left)
    }
}

pub struct Chunk {
    body: Rc<Vec<Stmt>>,
}

pub fn parse(src: &[u8]) -> Result<Chunk, String> {
    let toks = lex(src)?;
    let mut p = Parser { toks, pos: 0 };
    let body = p.block()?;
    if !matches!(p.peek(), Tok::Eof) {
        return p.err("'<eof>' expected");
    }
    Ok(Chunk { body: Rc::new(body) })
}

// ------------------------------------------------------------------------------------------
// Redis replies (the host interface)
// ------------------------------------------------------------------------------------------

#[derive(Clone, Debug, PartialEq)]
pub enum Reply {
    Status(String),
    Error(String),
    Int(i64),
    Bulk(Vec<u8>),
    Nil,
    Array(Vec<Reply>),
}

pub trait RedisHost {
    /// Execute one Redis command (argv[0] is the command name) inside the script.
    fn call(&mut self, argv: Vec<Vec<u8>>) -> Reply;
}

/// RESP reply -> Lua value (Redis scripting docs, RESP2 conversion table).
fn reply_to_lua(r: Reply) -> Value {
    match r {
        Reply::Int(i) => Value::Num(i as f64),
        Reply::Bulk(b) => Value::Str(Rc::new(b)),
        Reply::Nil => Value::Bool(false),
        Reply::Status(s) => {
            let mut t = Table::new();
            t.set(Value::str(b"ok"), Value::str(s.as_bytes()));
            Value::table(t)
        }
        Reply::Error(e) => {
            let mut t = Table::new();
            t.set(Value::str(b"err"), Value::str(e.as_bytes()));
            Value::table(t)
        }
        Reply::Array(items) => {
            Value::table(Table::from_array(items.into_iter().map(reply_to_lua).collect()))
        }
    }
}

/// Lua value -> RESP reply (script result conversion).
fn lua_to_reply(v: &Value, depth: u32) -> Reply {
    if depth > 64 {
        return Reply::Error("ERR reached lua stack limit".into());
    }
    match v {
        Value::Nil => Reply::Nil,
        Value::Bool(false) => Reply::Nil,
        Value::Bool(true) => Reply::Int(1),
        Value::Num(n) => Reply::Int(*n as i64),
        Value::Str(s) => Reply::Bulk(s.as_ref().clone()),
        Value::Table(t) => {
            let t = t.borrow();
            if let Value::Str(e) = t.get_str("err") {
                return Reply::Error(String::from_utf8_lossy(&e).into_owned());
            }
            if let Value::Str(s) = t.get_str("ok") {
                return Reply::Status(String::from_utf8_lossy(&s).into_owned());
            }
            // array part up to the first nil
            Reply::Array(t.array().iter().map(|x| lua_to_reply(x, depth + 1)).collect())
        }
        Value::Builtin(_) | Value::Func(_) => Reply::Nil,
    }
}

// ------------------------------------------------------------------------------------------
// Interpreter
// ------------------------------------------------------------------------------------------

struct Scope {
    vars: Vec<(String, Value)>,
    parent: Option<Env>,
}
type Env = Rc<RefCell<Scope>>;

fn new_env(parent: Option<Env>) -> Env {
    Rc::new(RefCell::new(Scope { vars: Vec::new(), parent }))
}

enum Flow {
    Normal,
    Break,
    Return(Vec<Value>),
}

pub struct LuaError(pub String);

fn to_num(v: &Value) -> Option<f64> {
    match v {
        Value::Num(n) => Some(*n),
        Value::Str(s) => str_to_number(s),
        _ => None,
    }
}

fn to_str_coerce(v: &Value) -> Option<Vec<u8>> {
    match v {
        Value::Str(s) => Some(s.as_ref().clone()),
        Value::Num(n) => Some(fmt_number(*n).into_bytes()),
        _ => None,
    }
}

type R<T> = Result<T, LuaError>;

fn rt<T>(line: u32, msg: impl Into<String>) -> R<T> {
    Err(LuaError(format!("user_script:{}: {}", line, msg.into())))
}

pub struct Interp<'h> {
    host: &'h mut dyn RedisHost,
    globals: BTreeMap<String, Value>,
    steps: u64,
    max_steps: u64,
    depth: u32,
}

impl<'h> Interp<'h> {
    pub fn new(host: &'h mut dyn RedisHost) -> Self {
        let mut globals = BTreeMap::new();
        for f in [
            "tonumber", "tostring", "type", "ipairs", "pairs", "next", "unpack", "error",
            "assert", "select", "pcall", "rawget", "rawset", "rawequal",
        ] {
            globals.insert(f.to_string(), Value::Builtin(f));
        }
        let lib = |names: &[(&str, &'static str)]| {
            let mut t = Table::new();
            for (k, b) in names {
                t.set(Value::str(k.as_bytes()), Value::Builtin(b));
            }
            Value::table(t)
        };
        globals.insert(
            "redis".into(),
            lib(&[
                ("call", "redis.call"),
                ("pcall", "redis.pcall"),
                ("error_reply", "redis.error_reply"),
                ("status_reply", "redis.status_reply"),
                ("log", "redis.log"),
                ("sha1hex", "redis.sha1hex"),
            ]),
        );
        globals.insert(
            "table".into(),
            lib(&[
                ("insert", "table.insert"),
                ("remove", "table.remove"),
                ("concat", "table.concat"),
                ("getn", "table.getn"),
            ]),
        );
        globals.insert(
            "string".into(),
            lib(&[
                ("len", "string.len"),
                ("sub", "string.sub"),
                ("lower", "string.lower"),
                ("upper", "string.upper"),
                ("rep", "string.rep"),
                ("byte", "string.byte"),
                ("format", "string.format"),
            ]),
        );
        globals.insert(
            "math".into(),
            lib(&[
                ("floor", "math.floor"),
                ("ceil", "math.ceil"),
                ("max", "math.max"),
                ("min", "math.min"),
                ("abs", "math.abs"),
            ]),
        );
        Interp { host, globals, steps: 0, max_steps: 5_000_000, depth: 0 }
    }

    /// Run a script with KEYS/ARGV and convert its result to a Redis reply.
    pub fn eval(&mut self, chunk: &Chunk, keys: &[Vec<u8>], argv: &[Vec<u8>]) -> Reply {
        self.globals.insert(
            "KEYS".into(),
            Value::table(Table::from_array(keys.iter().map(|k| Value::str(k)).collect())),
        );
        self.globals.insert(
            "ARGV".into(),
            Value::table(Table::from_array(argv.iter().map(|k| Value::str(k)).collect())),
        );
        let env = new_env(None);
        match self.exec_block(&chunk.body, &env) {
            Ok(Flow::Return(vs)) => match vs.first() {
                Some(v) => lua_to_reply(v, 0),
                None => Reply::Nil,
            },
            Ok(_) => Reply::Nil,
            Err(LuaError(m)) => {
                // errors raised by redis.call keep their own text; runtime errors get ERR
                if m.starts_with("user_script:") {
                    Reply::Error(format!("ERR {m}"))
                } else {
                    Reply::Error(m)
                }
            }
        }
    }

    fn tick(&mut self) -> R<()> {
        self.steps += 1;
        if self.steps > self.max_steps {
            return Err(LuaError("user_script:0: script exceeded the step budget".into()));
        }
        Ok(())
    }

    fn lookup(&self, env: &Env, name: &str) -> Value {
        let mut cur = Some(env.clone());
        while let Some(e) = cur {
            let s = e.borrow();
            for (n, v) in s.vars.iter().rev() {
                if n == name {
                    return v.clone();
                }
            }
            cur = s.parent.clone();
        }
        self.globals.get(name).cloned().unwrap_or(Value::Nil)
    }

    fn assign_name(&mut self, env: &Env, name: &str, v: Value) {
        let mut cur = Some(env.clone());
        while let Some(e) = cur {
            let mut s = e.borrow_mut();
            for (n, slot) in s.vars.iter_mut().rev() {
                if n == name {
                    *slot = v;
                    return;
                }
            }
            cur = s.parent.clone();
        }
        // Redis forbids creating globals from scripts
        self.globals.insert(name.to_string(), v);
    }

    fn exec_block(&mut self, body: &[Stmt], env: &Env) -> R<Flow> {
        for s in body {
            match self.exec(s, env)? {
                Flow::Normal => {}
                f => return Ok(f),
            }
        }
        Ok(Flow::Normal)
    }

    fn exec(&mut self, s: &Stmt, env: &Env) -> R<Flow> {
        self.tick()?;
        match s {
            Stmt::Local(names, exprs) => {
                let vals = self.eval_list(exprs, env)?;
                let mut sc = env.borrow_mut();
                for (i, n) in names.iter().enumerate() {
                    sc.vars.push((n.clone(), vals.get(i).cloned().unwrap_or(Value::Nil)));
                }
                Ok(Flow::Normal)
            }
            Stmt::LocalFunction(name, params, body) => {
                env.borrow_mut().vars.push((name.clone(), Value::Nil));
                let f = Value::Func(Rc::new(Closure {
                    params: params.clone(),
                    body: body.clone(),
                    env: env.clone(),
                }));
                self.assign_name(env, name, f);
                Ok(Flow::Normal)
            }
            Stmt::Assign(targets, exprs, line) => {
                let vals = self.eval_list(exprs, env)?;
                for (i, t) in targets.iter().enumerate() {
                    let v = vals.get(i).cloned().unwrap_or(Value::Nil);
                    match t {
                        Expr::Name(n) => {
                            // Redis: "Script attempted to create global variable"
                            let is_local = {
                                let mut cur = Some(env.clone());
                                let mut found = false;
                                while let Some(e) = cur {
                                    let s = e.borrow();
                                    if s.vars.iter().any(|(x, _)| x == n) {
                                        found = true;
                                        break;
                                    }
                                    cur = s.parent.clone();
                                }
                                found
                            };
                            if !is_local && !self.globals.contains_key(n.as_str()) {
                                return rt(
                                    *line,
                                    format!("Script attempted to create global variable '{n}'"),
                                );
                            }
                            self.assign_name(env, n, v)
                        }
                        Expr::Index(obj, key, l) => {
                            let o = self.eval1(obj, env)?;
                            let k = self.eval1(key, env)?;
                            match o {
                                Value::Table(t) => {
                                    if let Err(m) = Table::key_of(&k) {
                                        return rt(*l, m);
                                    }
                                    t.borrow_mut().set(k, v)
                                }
                                other => {
                                    return rt(
                                        *l,
                                        format!("attempt to index a {} value", other.type_name()),
                                    );
                                }
                            }
                        }
                        _ => return rt(*line, "cannot assign"),
                    }
                }
                Ok(Flow::Normal)
            }
            Stmt::Call(e) => {
                self.eval_multi(e, env)?;
                Ok(Flow::Normal)
            }
            Stmt::If(arms, els) => {
                for (c, b) in arms {
                    if self.eval1(c, env)?.truthy() {
                        let inner = new_env(Some(env.clone()));
                        return self.exec_block(b, &inner);
                    }
                }
                if let Some(b) = els {
                    let inner = new_env(Some(env.clone()));
                    return self.exec_block(b, &inner);
                }
                Ok(Flow::Normal)
            }
            Stmt::While(c, b) => {
                while self.eval1(c, env)?.truthy() {
                    self.tick()?;
                    let inner = new_env(Some(env.clone()));
                    match self.exec_block(b, &inner)? {
                        Flow::Break => break,
                        Flow::Return(v) => return Ok(Flow::Return(v)),
                        Flow::Normal => {}
                    }
                }
                Ok(Flow::Normal)
            }
            Stmt::Repeat(b, c) => {
                loop {
                    self.tick()?;
                    let inner = new_env(Some(env.clone()));
                    match self.exec_block(b, &inner)? {
                        Flow::Break => break,
                        Flow::Return(v) => return Ok(Flow::Return(v)),
                        Flow::Normal => {}
                    }
                    if self.eval1(c, &inner)?.truthy() {
                        break;
                    }
                }
                Ok(Flow::Normal)
            }
            Stmt::Do(b) => {
                let inner = new_env(Some(env.clone()));
                self.exec_block(b, &inner)
            }
            Stmt::NumFor(var, a, b, c, body, line) => {
                let start = to_num(&self.eval1(a, env)?);
                let limit = to_num(&self.eval1(b, env)?);
                let step = match c {
                    Some(e) => to_num(&self.eval1(e, env)?),
                    None => Some(1.0),
                };
                let (Some(start), Some(limit), Some(step)) = (start, limit, step) else {
                    return rt(*line, "'for' initial value/limit/step must be a number");
                };
                if step == 0.0 {
                    return rt(*line, "'for' step is zero");
                }
                let mut i = start;
                while (step > 0.0 && i <= limit) || (step < 0.0 && i >= limit) {
                    self.tick()?;
                    let inner = new_env(Some(env.clone()));
                    inner.borrow_mut().vars.push((var.clone(), Value::Num(i)));
                    match self.exec_block(body, &inner)? {
                        Flow::Break => break,
                        Flow::Return(v) => return Ok(Flow::Return(v)),
                        Flow::Normal => {}
                    }
                    i += step;
                }
                Ok(Flow::Normal)
            }
            Stmt::GenFor(names, exprs, body, line) => {
                let vals = self.eval_list(exprs, env)?;
                let f = vals.first().cloned().unwrap_or(Value::Nil);
                let s = vals.get(1).cloned().unwrap_or(Value::Nil);
                let mut ctl = vals.get(2).cloned().unwrap_or(Value::Nil);
                loop {
                    self.tick()?;
                    let rs = self.call_value(&f, vec![s.clone(), ctl.clone()], *line)?;
                    let first = rs.first().cloned().unwrap_or(Value::Nil);
                    if matches!(first, Value::Nil) {
                        break;
                    }
                    ctl = first;
                    let inner = new_env(Some(env.clone()));
                    {
                        let mut sc = inner.borrow_mut();
                        for (i, n) in names.iter().enumerate() {
                            sc.vars.push((n.clone(), rs.get(i).cloned().unwrap_or(Value::Nil)));
                        }
                    }
                    match self.exec_block(body, &inner)? {
                        Flow::Break => break,
                        Flow::Return(v) => return Ok(Flow::Return(v)),
                        Flow::Normal => {}
                    }
                }
                Ok(Flow::Normal)
            }
            Stmt::Return(es) => Ok(Flow::Return(self.eval_list(es, env)?)),
            Stmt::Break => Ok(Flow::Break),
        }
    }

    /// Evaluate an expression list with Lua's multi-value rule (last call expands).
    fn eval_list(&mut self, es: &[Expr], env: &Env) -> R<Vec<Value>> {
        let mut out = Vec::with_capacity(es.len());
        for (i, e) in es.iter().enumerate() {
            if i + 1 == es.len() {
                out.extend(self.eval_multi(e, env)?);
            } else {
                out.push(self.eval1(e, env)?);
            }
        }
        Ok(out)
    }

    fn eval_multi(&mut self, e: &Expr, env: &Env) -> R<Vec<Value>> {
        match e {
            Expr::Call(f, args, line) => {
                let fv = self.eval1(f, env)?;
                let argv = self.eval_list(args, env)?;
                if matches!(fv, Value::Nil) {
                    let what = match f.as_ref() {
                        Expr::Name(n) => format!("global '{n}'"),
                        Expr::Index(_, k, _) => match k.as_ref() {
                            Expr::Str(s) => format!("field '{}'", String::from_utf8_lossy(s)),
                            _ => "field '?'".into(),
                        },
                        _ => "a nil value".into(),
                    };
                    return rt(*line, format!("attempt to call {what} (a nil value)"));
                }
                self.call_value(&fv, argv, *line)
            }
            _ => Ok(vec![self.eval1(e, env)?]),
        }
    }

    fn to_num(&self, v: &Value) -> Option<f64> {
        to_num(v)
    }

    fn to_str_coerce(&self, v: &Value) -> Option<Vec<u8>> {
        to_str_coerce(v)
    }

    fn eval1(&mut self, e: &Expr, env: &Env) -> R<Value> {
        self.tick()?;
        Ok(match e {
            Expr::Nil => Value::Nil,
            Expr::True => Value::Bool(true),
            Expr::False => Value::Bool(false),
            Expr::Num(n) => Value::Num(*n),
            Expr::Str(s) => Value::Str(s.clone()),
            Expr::Name(n) => {
                let v = self.lookup(env, n);
                if matches!(v, Value::Nil) {
                    // distinguish "nil local" from "unknown global": Redis raises on the latter
                    let mut cur = Some(env.clone());
                    let mut found = false;
                    while let Some(en) = cur {
                        let s = en.borrow();
                        if s.vars.iter().any(|(x, _)| x == n) {
                            found = true;
                            break;
                        }
                        cur = s.parent.clone();
                    }
                    if !found && !self.globals.contains_key(n.as_str()) {
                        return rt(
                            0,
                            format!("Script attempted to access nonexistent global variable '{n}'"),
                        );
                    }
                }
                v
            }
            Expr::Paren(inner) => self.eval1(inner, env)?,
            Expr::Index(obj, key, line) => {
                let o = self.eval1(obj, env)?;
                let k = self.eval1(key, env)?;
                match o {
                    Value::Table(t) => t.borrow().get(&k),
                    Value::Str(_) => Value::Nil, // string methods are not supported
                    other => {
                        return rt(
                            *line,
                            format!("attempt to index a {} value", other.type_name()),
                        );
                    }
                }
            }
            Expr::Call(..) => self
                .eval_multi(e, env)?
                .into_iter()
                .next()
                .unwrap_or(Value::Nil),
            Expr::Function(params, body) => Value::Func(Rc::new(Closure {
                params: params.clone(),
                body: body.clone(),
                env: env.clone(),
            })),
            Expr::And(a, b) => {
                let l = self.eval1(a, env)?;
                if l.truthy() { self.eval1(b, env)? } else { l }
            }
            Expr::Or(a, b) => {
                let l = self.eval1(a, env)?;
                if l.truthy() { l } else { self.eval1(b, env)? }
            }
            Expr::Un(op, a, line) => {
                let v = self.eval1(a, env)?;
                match *op {
                    "not" => Value::Bool(!v.truthy()),
                    "-" => match self.to_num(&v) {
                        Some(n) => Value::Num(-n),
                        None => {
                            return rt(
                                *line,
                                format!(
                                    "attempt to perform arithmetic on a {} value",
                                    v.type_name()
                                ),
                            );
                        }
                    },
                    "#" => match &v {
                        Value::Str(s) => Value::Num(s.len() as f64),
                        Value::Table(t) => Value::Num(t.borrow().len() as f64),
                        _ => {
                            return rt(
                                *line,
                                format!("attempt to get length of a {} value", v.type_name()),
                            );
                        }
                    },
                    _ => unreachable!(),
                }
            }
            Expr::Bin(op, a, b, line) => {
                let l = self.eval1(a, env)?;
                let r = self.eval1(b, env)?;
                self.binop(op, l, r, *line)?
            }
            Expr::TableCons(items) => {
                let mut t = Table::new();
                let mut next_idx = 1usize;
                let n = items.len();
                for (i, (k, v)) in items.iter().enumerate() {
                    match k {
                        Some(k) => {
                            let kv = self.eval1(k, env)?;
                            let vv = self.eval1(v, env)?;
                            if let Err(m) = Table::key_of(&kv) {
                                return rt(0, m);
                            }
                            t.set(kv, vv);
                        }
                        None => {
                            if i + 1 == n {
                                for x in self.eval_multi(v, env)? {
                                    t.set(Value::Num(next_idx as f64), x);
                                    next_idx += 1;
                                }
                            } else {
                                let vv = self.eval1(v, env)?;
                                t.set(Value::Num(next_idx as f64), vv);
                                next_idx += 1;
                            }
                        }
                    }
                }
                Value::table(t)
            }
        })
    }

    fn binop(&mut self, op: &str, l: Value, r: Value, line: u32) -> R<Value> {
        match op {
            "==" => return Ok(Value::Bool(raw_eq(&l, &r))),
            "~=" => return Ok(Value::Bool(!raw_eq(&l, &r))),
            "<" | "<=" | ">" | ">=" => {
                let res = match (&l, &r) {
                    (Value::Num(a), Value::Num(b)) => match op {
                        "<" => a < b,
                        "<=" => a <= b,
                        ">" => a > b,
                        _ => a >= b,
                    },
                    (Value::Str(a), Value::Str(b)) => match op {
                        "<" => a < b,
                        "<=" => a <= b,
                        ">" => a > b,
                        _ => a >= b,
                    },
                    _ => {
                        let (tl, tr) = (l.type_name(), r.type_name());
                        return if tl == tr {
                            rt(line, format!("attempt to compare two {tl} values"))
                        } else {
                            rt(line, format!("attempt to compare {tl} with {tr}"))
                        };
                    }
                };
                return Ok(Value::Bool(res));
            }
            ".." => {
                let (Some(a), Some(b)) = (self.to_str_coerce(&l), self.to_str_coerce(&r)) else {
                    let bad = if self.to_str_coerce(&l).is_none() { &l } else { &r };
                    return rt(
                        line,
                        format!("attempt to concatenate a {} value", bad.type_name()),
                    );
                };
                let mut s = a;
                s.extend_from_slice(&b);
                return Ok(Value::Str(Rc::new(s)));
            }
            _ => {}
        }
        let (Some(a), Some(b)) = (self.to_num(&l), self.to_num(&r)) else {
            let bad = if self.to_num(&l).is_none() { &l } else { &r };
            return rt(
                line,
                format!("attempt to perform arithmetic on a {} value", bad.type_name()),
            );
        };
        Ok(Value::Num(match op {
            "+" => a + b,
            "-" => a - b,
            "*" => a * b,
            "/" => a / b,
            "%" => a - (a / b).floor() * b,
            "^" => a.powf(b),
            _ => return rt(line, format!("unsupported operator {op}")),
        }))
    }

    fn call_value(&mut self, f: &Value, args: Vec<Value>, line: u32) -> R<Vec<Value>> {
        match f {
            Value::Builtin(name) => self.call_builtin(name, args, line),
            Value::Func(c) => {
                self.depth += 1;
                if self.depth > 150 {
                    self.depth -= 1;
                    return rt(line, "stack overflow");
                }
                let env = new_env(Some(c.env.clone()));
                {
                    let mut sc = env.borrow_mut();
                    for (i, p) in c.params.iter().enumerate() {
                        sc.vars.push((p.clone(), args.get(i).cloned().unwrap_or(Value::Nil)));
                    }
                }
                let r = self.exec_block(&c.body, &env);
                self.depth -= 1;
                match r? {
                    Flow::Return(v) => Ok(v),
                    _ => Ok(Vec::new()),
                }
            }
            other => rt(line, format!("attempt to call a {} value", other.type_name())),
        }
    }

    fn redis_call(&mut self, args: Vec<Value>, line: u32, raise: bool) -> R<Vec<Value>> {
        if args.is_empty() {
            return rt(line, "Please specify at least one argument for this redis lib call");
        }
        let mut argv = Vec::with_capacity(args.len());
        for a in &args {
            match a {
                Value::Str(s) => argv.push(s.as_ref().clone()),
                Value::Num(n) => {
                    // Redis: integers as %lld, others as %.17g
                    if n.fract() == 0.0 && n.abs() < 9.2e18 {
                        argv.push(format!("{}", *n as i64).into_bytes())
                    } else {
                        argv.push(format!("{:e}", n).into_bytes())
                    }
                }
                _ => {
                    return rt(
                        line,
                        "Lua redis lib command arguments must be strings or integers",
                    );
                }
            }
        }
        let reply = self.host.call(argv);
        if let Reply::Error(e) = &reply {
            if raise {
                return Err(LuaError(e.clone()));
            }
        }
        Ok(vec![reply_to_lua(reply)])
    }

    fn call_builtin(&mut self, name: &str, args: Vec<Value>, line: u32) -> R<Vec<Value>> {
        let arg = |i: usize| args.get(i).cloned().unwrap_or(Value::Nil);
        let one = |v: Value| Ok(vec![v]);
        match name {
            "redis.call" => self.redis_call(args, line, true),
            "redis.pcall" => self.redis_call(args, line, false),
            "redis.error_reply" | "redis.status_reply" => {
                let Value::Str(s) = arg(0) else {
                    return rt(line, "wrong number or type of arguments");
                };
                let mut t = Table::new();
                let field: &[u8] = if name == "redis.error_reply" { b"err" } else { b"ok" };
                t.set(Value::str(field), Value::Str(s));
                one(Value::table(t))
            }
            "redis.log" => Ok(Vec::new()),
            "redis.sha1hex" => {
                let Some(s) = self.to_str_coerce(&arg(0)) else {
                    return rt(line, "wrong number of arguments");
                };
                one(Value::str(crate::resp::sha1_hex(&s).as_bytes()))
            }
            "tonumber" => {
                let base = arg(1);
                if !matches!(base, Value::Nil) {
                    let b = self.to_num(&base).unwrap_or(10.0) as u32;
                    if b != 10 {
                        let Some(s) = self.to_str_coerce(&arg(0)) else {
                            return one(Value::Nil);
                        };
                        let t = String::from_utf8_lossy(&s).trim().to_lowercase();
                        return one(match i64::from_str_radix(&t, b) {
                            Ok(v) => Value::Num(v as f64),
                            Err(_) => Value::Nil,
                        });
                    }
                }
                if args.is_empty() {
                    return rt(line, "bad argument #1 to 'tonumber' (value expected)");
                }
                one(match self.to_num(&arg(0)) {
                    Some(n) => Value::Num(n),
                    None => Value::Nil,
                })
            }
            "tostring" => {
                if args.is_empty() {
                    return rt(line, "bad argument #1 to 'tostring' (value expected)");
                }
                one(match arg(0) {
                    Value::Nil => Value::str(b"nil"),
                    Value::Bool(b) => Value::str(if b { b"true" } else { b"false" }),
                    Value::Num(n) => Value::str(fmt_number(n).as_bytes()),
                    Value::Str(s) => Value::Str(s),
                    Value::Table(t) => {
                        Value::str(format!("table: {:p}", Rc::as_ptr(&t)).as_bytes())
                    }
                    _ => Value::str(b"function: builtin"),
                })
            }
            "type" => {
                if args.is_empty() {
                    return rt(line, "bad argument #1 to 'type' (value expected)");
                }
                one(Value::str(arg(0).type_name().as_bytes()))
            }
            "ipairs" => {
                if !matches!(arg(0), Value::Table(_)) {
                    return rt(
                        line,
                        format!(
                            "bad argument #1 to 'ipairs' (table expected, got {})",
                            arg(0).type_name()
                        ),
                    );
                }
                Ok(vec![Value::Builtin("ipairs_iter"), arg(0), Value::Num(0.0)])
            }
            "ipairs_iter" => {
                let Value::Table(t) = arg(0) else { return one(Value::Nil) };
                let i = self.to_num(&arg(1)).unwrap_or(0.0) + 1.0;
                let v = t.borrow().get(&Value::Num(i));
                if matches!(v, Value::Nil) {
                    one(Value::Nil)
                } else {
                    Ok(vec![Value::Num(i), v])
                }
            }
            "pairs" => {
                if !matches!(arg(0), Value::Table(_)) {
                    return rt(
                        line,
                        format!(
                            "bad argument #1 to 'pairs' (table expected, got {})",
                            arg(0).type_name()
                        ),
                    );
                }
                Ok(vec![Value::Builtin("next"), arg(0), Value::Nil])
            }
            "next" => {
                let Value::Table(t) = arg(0) else {
                    return rt(line, "bad argument #1 to 'next' (table expected)");
                };
                let t = t.borrow();
                let k = arg(1);
                // order: array part, then hash part in key order
                let start_hash = |t: &Table, after: Option<&Key>| -> Vec<Value> {
                    let mut it: Box<dyn Iterator<Item = (&Key, &Value)>> = match after {
                        None => Box::new(t.hash.iter()),
                        Some(a) => Box::new(
                            t.hash.range((std::ops::Bound::Excluded(a.clone()), std::ops::Bound::Unbounded)),
                        ),
                    };
                    match it.next() {
                        None => vec![Value::Nil],
                        Some((k, v)) => {
                            let kv = match k {
                                Key::Bool(b) => Value::Bool(*b),
                                Key::Str(s) => Value::str(s),
                                Key::Num(bits) => {
                                    let b = if bits >> 63 == 1 { bits & !(1 << 63) } else { !bits };
                                    Value::Num(f64::from_bits(b))
                                }
                            };
                            vec![kv, v.clone()]
                        }
                    }
                };
                match &k {
                    Value::Nil => {
                        if !t.arr.is_empty() {
                            Ok(vec![Value::Num(1.0), t.arr[0].clone()])
                        } else {
                            Ok(start_hash(&t, None))
                        }
                    }
                    Value::Num(n) if n.fract() == 0.0 && *n >= 1.0 && (*n as usize) <= t.arr.len() => {
                        let i = *n as usize;
                        if i < t.arr.len() {
                            Ok(vec![Value::Num((i + 1) as f64), t.arr[i].clone()])
                        } else {
                            Ok(start_hash(&t, None))
                        }
                    }
                    other => match Table::key_of(other) {
                        Ok(Some(key)) => Ok(start_hash(&t, Some(&key))),
                        _ => one(Value::Nil),
                    },
                }
            }
            "unpack" => {
                let Value::Table(t) = arg(0) else {
                    return rt(line, "bad argument #1 to 'unpack' (table expected)");
                };
                let t = t.borrow();
                let i = self.to_num(&arg(1)).unwrap_or(1.0) as i64;
                let j = match arg(2) {
                    Value::Nil => t.len() as i64,
                    v => self.to_num(&v).unwrap_or(0.0) as i64,
                };
                let mut out = Vec::new();
                let mut k = i;
                while k <= j {
                    out.push(t.get(&Value::Num(k as f64)));
                    k += 1;
                }
                Ok(out)
            }
            "select" => {
                if let Value::Str(s) = arg(0) {
                    if s.as_slice() == b"#" {
                        return one(Value::Num((args.len() - 1) as f64));
                    }
                }
                let n = self.to_num(&arg(0)).unwrap_or(1.0) as usize;
                Ok(args.iter().skip(n.max(1)).cloned().collect())
            }
            "error" => {
                let m = match arg(0) {
                    Value::Str(s) => String::from_utf8_lossy(&s).into_owned(),
                    Value::Table(t) => match t.borrow().get_str("err") {
                        Value::Str(s) => String::from_utf8_lossy(&s).into_owned(),
                        _ => "error".into(),
                    },
                    v => format!("{}", v.type_name()),
                };
                rt(line, m)
            }
            "assert" => {
                if arg(0).truthy() {
                    Ok(args)
                } else {
                    let m = match arg(1) {
                        Value::Str(s) => String::from_utf8_lossy(&s).into_owned(),
                        _ => "assertion failed!".into(),
                    };
                    rt(line, m)
                }
            }
            "pcall" => {
                let f = arg(0);
                let rest: Vec<Value> = args.iter().skip(1).cloned().collect();
                match self.call_value(&f, rest, line) {
                    Ok(mut v) => {
                        let mut out = vec![Value::Bool(true)];
                        out.append(&mut v);
                        Ok(out)
                    }
                    Err(LuaError(m)) => Ok(vec![Value::Bool(false), Value::str(m.as_bytes())]),
                }
            }
            "rawget" => {
                let Value::Table(t) = arg(0) else { return one(Value::Nil) };
                let v = t.borrow().get(&arg(1));
                one(v)
            }
            "rawset" => {
                let Value::Table(t) = arg(0) else { return one(Value::Nil) };
                t.borrow_mut().set(arg(1), arg(2));
                one(Value::Table(t))
            }
            "rawequal" => one(Value::Bool(raw_eq(&arg(0), &arg(1)))),
            "table.insert" => {
                let Value::Table(t) = arg(0) else {
                    return rt(
                        line,
                        format!(
                            "bad argument #1 to 'insert' (table expected, got {})",
                            arg(0).type_name()
                        ),
                    );
                };
                let mut t = t.borrow_mut();
                match args.len() {
                    2 => {
                        let n = t.len();
                        t.set(Value::Num((n + 1) as f64), arg(1));
                    }
                    3 => {
                        let n = t.len();
                        let pos = self.to_num(&arg(1)).unwrap_or((n + 1) as f64) as usize;
                        let pos = pos.clamp(1, n + 1);
                        let mut i = n;
                        while i >= pos {
                            let v = t.get(&Value::Num(i as f64));
                            t.set(Value::Num((i + 1) as f64), v);
                            i -= 1;
                        }
                        t.set(Value::Num(pos as f64), arg(2));
                    }
                    _ => return rt(line, "wrong number of arguments to 'insert'"),
                }
                Ok(Vec::new())
            }
            "table.remove" => {
                let Value::Table(t) = arg(0) else {
                    return rt(line, "bad argument #1 to 'remove' (table expected)");
                };
                let mut t = t.borrow_mut();
                let n = t.len();
                if n == 0 {
                    return one(Value::Nil);
                }
                let pos = match arg(1) {
                    Value::Nil => n,
                    v => self.to_num(&v).unwrap_or(n as f64) as usize,
                };
                if pos < 1 || pos > n {
                    return one(Value::Nil);
                }
                let removed = t.get(&Value::Num(pos as f64));
                for i in pos..n {
                    let v = t.get(&Value::Num((i + 1) as f64));
                    t.set(Value::Num(i as f64), v);
                }
                t.set(Value::Num(n as f64), Value::Nil);
                one(removed)
            }
            "table.concat" => {
                let Value::Table(t) = arg(0) else {
                    return rt(line, "bad argument #1 to 'concat' (table expected)");
                };
                let sep = self.to_str_coerce(&arg(1)).unwrap_or_default();
                let t = t.borrow();
                let mut out = Vec::new();
                for (i, v) in t.array().iter().enumerate() {
                    if i > 0 {
                        out.extend_from_slice(&sep);
                    }
                    match self.to_str_coerce(v) {
                        Some(s) => out.extend_from_slice(&s),
                        None => return rt(line, "invalid value in table for 'concat'"),
                    }
                }
                one(Value::Str(Rc::new(out)))
            }
            "table.getn" => match arg(0) {
                Value::Table(t) => one(Value::Num(t.borrow().len() as f64)),
                _ => rt(line, "bad argument #1 to 'getn' (table expected)"),
            },
            "string.len" => match self.to_str_coerce(&arg(0)) {
                Some(s) => one(Value::Num(s.len() as f64)),
                None => rt(line, "bad argument #1 to 'len' (string expected)"),
            },
            "string.sub" => {
                let Some(s) = self.to_str_coerce(&arg(0)) else {
                    return rt(line, "bad argument #1 to 'sub' (string expected)");
                };
                let len = s.len() as i64;
                let norm = |x: i64| if x < 0 { (len + x + 1).max(0) } else { x };
                let i = norm(self.to_num(&arg(1)).unwrap_or(1.0) as i64).max(1);
                let j = norm(match arg(2) {
                    Value::Nil => -1,
                    v => self.to_num(&v).unwrap_or(-1.0) as i64,
                })
                .min(len);
                if i > j {
                    return one(Value::str(b""));
                }
                one(Value::str(&s[(i - 1) as usize..j as usize]))
            }
            "string.lower" | "string.upper" => {
                let Some(s) = self.to_str_coerce(&arg(0)) else {
                    return rt(line, "bad argument #1 (string expected)");
                };
                one(Value::Str(Rc::new(if name == "string.lower" {
                    s.to_ascii_lowercase()
                } else {
                    s.to_ascii_uppercase()
                })))
            }
            "string.rep" => {
                let Some(s) = self.to_str_coerce(&arg(0)) else {
                    return rt(line, "bad argument #1 to 'rep' (string expected)");
                };
                let n = self.to_num(&arg(1)).unwrap_or(0.0).max(0.0) as usize;
                if s.len().saturating_mul(n) > 1 << 24 {
                    return rt(line, "resulting string too large");
                }
                one(Value::Str(Rc::new(s.repeat(n))))
            }
            "string.byte" => {
                let Some(s) = self.to_str_coerce(&arg(0)) else {
                    return rt(line, "bad argument #1 to 'byte' (string expected)");
                };
                let i = self.to_num(&arg(1)).unwrap_or(1.0) as usize;
                one(match s.get(i.wrapping_sub(1)) {
                    Some(b) => Value::Num(*b as f64),
                    None => Value::Nil,
                })
            }
            "string.format" => {
                let Some(f) = self.to_str_coerce(&arg(0)) else {
                    return rt(line, "bad argument #1 to 'format' (string expected)");
                };
                let mut out = Vec::new();
                let mut ai = 1;
                let mut i = 0;
                while i < f.len() {
                    if f[i] == b'%' && i + 1 < f.len() {
                        let c = f[i + 1];
                        i += 2;
                        match c {
                            b'%' => out.push(b'%'),
                            b'd' | b'i' => {
                                let Some(n) = self.to_num(&arg(ai)) else {
                                    return rt(line, "bad argument to 'format' (number expected)");
                                };
                                ai += 1;
                                out.extend_from_slice(format!("{}", n as i64).as_bytes());
                            }
                            b's' => {
                                let v = arg(ai);
                                ai += 1;
                                let s = match &v {
                                    Value::Nil => b"nil".to_vec(),
                                    Value::Bool(b) => {
                                        if *b { b"true".to_vec() } else { b"false".to_vec() }
                                    }
                                    _ => self.to_str_coerce(&v).unwrap_or_default(),
                                };
                                out.extend_from_slice(&s);
                            }
                            _ => {
                                return rt(
                                    line,
                                    "string.format: only %d %s %% are supported by the mini-Lua interpreter",
                                );
                            }
                        }
                    } else {
                        out.push(f[i]);
                        i += 1;
                    }
                }
                one(Value::Str(Rc::new(out)))
            }
            "math.floor" | "math.ceil" | "math.abs" => {
                let Some(n) = self.to_num(&arg(0)) else {
                    return rt(line, "bad argument #1 (number expected)");
                };
                one(Value::Num(match name {
                    "math.floor" => n.floor(),
                    "math.ceil" => n.ceil(),
                    _ => n.abs(),
                }))
            }
            "math.max" | "math.min" => {
                let mut best: Option<f64> = None;
                for a in &args {
                    let Some(n) = self.to_num(a) else {
                        return rt(line, "bad argument (number expected)");
                    };
                    best = Some(match best {
                        None => n,
                        Some(b) => {
                            if name == "math.max" { b.max(n) } else { b.min(n) }
                        }
                    });
                }
                match best {
                    Some(b) => one(Value::Num(b)),
                    None => rt(line, "bad argument #1 (number expected, got no value)"),
                }
            }
            other => rt(line, format!("unsupported builtin {other}")),
        }
    }
}
