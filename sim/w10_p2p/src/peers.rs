//! C31 — the real `PeerManager` and the real `ConnectionTracker` (reading the connection state
//! through the seqlock the manager writes) driven by a simulated libp2p swarm: simulated remote
//! peers open and close connections, identify, send heartbeats, get scored and banned.
//!
//! The simulated swarm follows the protocol of `p2p_service.rs` / `peer_report.rs`:
//! * every connection attempt (inbound or outbound) first passes the transport upgrade, which
//!   asks `ConnectionTracker::allow_peer` AT THAT MOMENT; a refused attempt never reaches the
//!   manager;
//! * an established connection is counted by the connection pool at once and queues a
//!   `PeerConnected` event; a closed connection queues `PeerDisconnected` only if it was the
//!   peer's LAST connection at that time; the queue (the behaviour's `pending_events`) is
//!   delivered to the manager in FIFO order, later — so handshakes race with the manager;
//! * when the manager answers "disconnect" (`swarm.disconnect_peer_id`) or the `Punisher` is
//!   called (`block_peer`), the pool starts closing every connection of the peer it has at that
//!   time; the closes complete later; a blocked peer cannot connect again.

use fuel_core_p2p::{
    Multiaddr,
    PeerId,
    peer_manager::{
        ConnectionState,
        PeerManager,
        Punisher,
    },
    verif_api::VerifConnectionTracker,
};
use fuel_core_types::{
    fuel_types::BlockHeight,
    services::p2p::peer_reputation::{
        MAX_APP_SCORE,
        MIN_APP_SCORE,
    },
};
use simkit::{
    Ctx,
    Tier,
};
use std::{
    collections::{
        BTreeMap,
        BTreeSet,
    },
    str::FromStr,
    time::Duration,
};

const P: &str = "C31";

struct SimPeer {
    id: PeerId,
    reserved: bool,
    /// pool: established connections that are not being closed
    open: u32,
    /// pool: connections being closed by us (manager said disconnect / peer was banned)
    closing: u32,
    /// on the swarm's block list
    banned: bool,
}

#[derive(Clone, Copy, Debug)]
enum SwarmEvent {
    PeerConnected(usize),
    PeerDisconnected(usize),
}

#[derive(Default)]
struct Bans {
    banned: Vec<PeerId>,
}

impl Punisher for Bans {
    fn ban_peer(&mut self, peer_id: PeerId) {
        self.banned.push(peer_id);
    }
}

fn peer_id(n: u32) -> PeerId {
    // sha2-256 multihash of a recognisable digest
    let mut b = vec![0x12u8, 0x20];
    let mut digest = [0u8; 32];
    digest[..4].copy_from_slice(&n.to_be_bytes());
    digest[31] = 0xA5;
    b.extend_from_slice(&digest);
    PeerId::from_bytes(&b).expect("valid multihash")
}

struct World {
    pm: PeerManager,
    tracker: VerifConnectionTracker,
    peers: Vec<SimPeer>,
    index: BTreeMap<PeerId, usize>,
    max: usize,
    reserved_only: bool,
    /// model: non-reserved peers the manager admitted and whose disconnect it was not told yet
    admitted: BTreeSet<usize>,
    /// model: reserved peers connected
    reserved_connected: BTreeSet<usize>,
    /// what the connection state flag would be if it were updated the way the recorded defect
    /// (known finding) updates it — used ONLY to give that defect its own violation class
    shadow_flag: bool,
    bans: Bans,
    fresh_counter: u32,
    updates: tokio::sync::broadcast::Receiver<usize>,
    /// `PeerReportEvent`s not yet handed to the manager
    queue: std::collections::VecDeque<SwarmEvent>,
}

impl World {
    fn free_slot(&self) -> bool {
        self.admitted.len() < self.max
    }

    fn name(&self, i: usize) -> String {
        format!("{}{}", if self.peers[i].reserved { "R" } else { "N" }, i)
    }

    /// Swarm reaction to `ban_peer` calls made during the last manager call.
    fn apply_bans(&mut self, ctx: &mut Ctx, from: usize) {
        let new: Vec<PeerId> = self.bans.banned[from..].to_vec();
        for id in new {
            let Some(&i) = self.index.get(&id) else {
                ctx.ev(format!("  ban of a peer the swarm does not know: {id}"));
                continue;
            };
            ctx.probe("ban_peer");
            ctx.ev(format!("  -> ban_peer({})", self.name(i)));
            ctx.check(P, "reserved-banned", !self.peers[i].reserved, || {
                format!("reserved peer {i} was banned")
            });
            let p = &mut self.peers[i];
            p.banned = true;
            p.closing += p.open;
            p.open = 0;
        }
    }

    /// The manager is told that the last connection of peer `i` is gone.
    fn deliver_disconnected(&mut self, ctx: &mut Ctx, i: usize) {
        let id = self.peers[i].id;
        let was_admitted = self.admitted.contains(&i);
        ctx.op(format!(
            "deliver PeerDisconnected({}) slots {}/{}",
            self.name(i),
            self.admitted.len(),
            self.max
        ));
        let len_before = self.admitted.len();
        let reconnect = self.pm.handle_peer_disconnect(id);
        ctx.ev(format!("  -> reconnect={reconnect}"));
        if self.peers[i].reserved {
            self.reserved_connected.remove(&i);
        } else if was_admitted {
            self.admitted.remove(&i);
            if len_before == self.max {
                ctx.probe("disconnect_from_full_table");
            }
            // the recorded defect: the flag is re-opened only if `max == len_before + 1`
            if self.max == len_before + 1 {
                self.shadow_flag = true;
            }
        } else {
            ctx.probe("disconnect_of_unadmitted_peer");
        }
    }

    /// Pool: one connection of peer `i` is gone (`closing`: one we were closing ourselves).
    fn close_one(&mut self, ctx: &mut Ctx, i: usize, closing: bool) {
        let p = &mut self.peers[i];
        if closing {
            p.closing -= 1;
        } else {
            p.open -= 1;
        }
        if p.open + p.closing == 0 {
            // remaining_established == 0
            ctx.ev(format!("  queued PeerDisconnected({})", self.name(i)));
            self.queue.push_back(SwarmEvent::PeerDisconnected(i));
        }
    }

    /// Pool: start closing every connection of peer `i`.
    fn close_all(&mut self, i: usize) {
        let p = &mut self.peers[i];
        p.closing += p.open;
        p.open = 0;
    }

    /// One connection attempt of peer `i` (inbound or outbound, the upgrade is the same).
    fn attempt(&mut self, ctx: &mut Ctx, i: usize) {
        let id = self.peers[i].id;
        let reserved = self.peers[i].reserved;
        ctx.op(format!(
            "attempt {} (pool connections={}+{} slots {}/{} queued={})",
            self.name(i),
            self.peers[i].open,
            self.peers[i].closing,
            self.admitted.len(),
            self.max,
            self.queue.len()
        ));
        // the transport upgrade asks the tracker
        let allowed = self.tracker.allow_peer(&id);
        ctx.ev(format!("  tracker.allow_peer -> {allowed}"));
        if reserved {
            ctx.check(P, "reserved-denied-by-tracker", allowed, || {
                format!("tracker refused reserved peer {i}")
            });
        } else if !self.admitted.contains(&i) {
            // a non-reserved peer that holds no slot: a new peer for the slot accounting
            self.check_tracker_answer(ctx, allowed, "connecting peer");
        }
        if !allowed {
            ctx.probe("handshake_refused");
            return;
        }
        self.peers[i].open += 1;
        self.queue.push_back(SwarmEvent::PeerConnected(i));
    }

    /// The manager is told about one established connection of peer `i`.
    fn deliver_connected(&mut self, ctx: &mut Ctx, i: usize) {
        let id = self.peers[i].id;
        let reserved = self.peers[i].reserved;
        let free = self.free_slot();
        ctx.op(format!(
            "deliver PeerConnected({}) slots {}/{}",
            self.name(i),
            self.admitted.len(),
            self.max
        ));
        let bans_before = self.bans.banned.len();
        let disconnect = self.pm.handle_peer_connected(&id);
        ctx.ev(format!("  handle_peer_connected -> disconnect={disconnect}"));
        if reserved {
            ctx.check(P, "reserved-rejected-by-manager", !disconnect, || {
                format!("manager asked to disconnect reserved peer {i}")
            });
            if !disconnect {
                self.reserved_connected.insert(i);
            }
        } else if self.admitted.contains(&i) {
            ctx.probe("duplicate_connect_of_admitted_peer");
            ctx.check(P, "admitted-peer-rejected-on-second-connection", !disconnect, || {
                format!("manager asked to disconnect the already admitted peer {i}")
            });
        } else {
            if free {
                ctx.check(P, "manager-rejects-with-free-slot", !disconnect, || {
                    format!(
                        "peer {i} rejected although {} of {} slots are taken",
                        self.admitted.len(),
                        self.max
                    )
                });
            } else {
                ctx.probe("connect_when_full");
                ctx.check(P, "manager-admits-without-free-slot", disconnect, || {
                    format!(
                        "peer {i} admitted although {} of {} slots are taken",
                        self.admitted.len(),
                        self.max
                    )
                });
            }
            if !disconnect {
                // recorded defect model: the flag is closed when this was the last slot
                if self.admitted.len() + 1 == self.max {
                    self.shadow_flag = false;
                }
                self.admitted.insert(i);
            }
        }
        if disconnect {
            // swarm.disconnect_peer_id: every connection the pool has for the peer gets closed
            self.close_all(i);
        }
        self.apply_bans(ctx, bans_before);
    }

    fn deliver(&mut self, ctx: &mut Ctx) {
        match self.queue.pop_front() {
            Some(SwarmEvent::PeerConnected(i)) => self.deliver_connected(ctx, i),
            Some(SwarmEvent::PeerDisconnected(i)) => self.deliver_disconnected(ctx, i),
            None => {}
        }
    }

    /// `allowed` is the tracker's answer for a non-reserved peer that holds no slot.
    fn check_tracker_answer(&mut self, ctx: &mut Ctx, allowed: bool, who: &str) {
        if self.reserved_only {
            ctx.check(P, "reserved-only-mode-admits-stranger", !allowed, || {
                format!("reserved-nodes-only mode: tracker allowed a non-reserved {who}")
            });
            return;
        }
        let free = self.free_slot();
        if allowed == free {
            ctx.check(P, "tracker-answer", true, String::new);
            if free {
                ctx.probe("tracker_allows_free_slot");
            } else {
                ctx.probe("tracker_denies_full");
            }
            return;
        }
        let explained_by_known_defect = allowed == self.shadow_flag;
        let taken = self.admitted.len();
        let max = self.max;
        if free {
            let class = if explained_by_known_defect {
                "tracker-denies-free-slot:not-reopened-after-disconnect-from-full-table"
            } else {
                "tracker-denies-free-slot"
            };
            ctx.check(P, class, false, || {
                format!("tracker refuses a new non-reserved {who} although only {taken} of {max} slots are taken")
            });
        } else {
            let class = if explained_by_known_defect && max == 0 {
                "tracker-allows-without-free-slot:limit-zero-never-closed"
            } else {
                "tracker-allows-without-free-slot"
            };
            ctx.check(P, class, false, || {
                format!("tracker admits a new non-reserved {who} although all {max} slots are taken")
            });
        }
    }

    /// Invariants evaluated after every event.
    fn invariants(&mut self, ctx: &mut Ctx) {
        // a brand new non-reserved peer, as libp2p would ask
        self.fresh_counter += 1;
        let fresh = peer_id(1_000_000 + self.fresh_counter);
        let allowed = self.tracker.allow_peer(&fresh);
        self.check_tracker_answer(ctx, allowed, "peer never seen before");
        for i in 0..self.peers.len() {
            if self.peers[i].reserved {
                let ok = self.tracker.allow_peer(&self.peers[i].id);
                ctx.check(P, "reserved-denied-by-tracker", ok, || {
                    format!("tracker refuses reserved peer {i}")
                });
            }
        }
        // the manager's table against the history
        let mut table_nonres = BTreeSet::new();
        let mut table_res = BTreeSet::new();
        let mut worst: Option<(usize, f64)> = None;
        for (id, info) in self.pm.get_all_peers() {
            let Some(&i) = self.index.get(id) else {
                continue;
            };
            if self.peers[i].reserved {
                table_res.insert(i);
            } else {
                table_nonres.insert(i);
            }
            if !(info.score <= MAX_APP_SCORE) && worst.map(|(j, _)| i < j).unwrap_or(true) {
                worst = Some((i, info.score));
            }
        }
        ctx.check(P, "nonreserved-over-limit", table_nonres.len() <= self.max, || {
            format!(
                "{} non-reserved peers connected, limit {}",
                table_nonres.len(),
                self.max
            )
        });
        ctx.check(P, "score-above-max", worst.is_none(), || {
            format!("peer {:?} has a score above {MAX_APP_SCORE}", worst)
        });
        ctx.check(
            P,
            "manager-table-differs-from-history",
            table_nonres == self.admitted && table_res == self.reserved_connected,
            || {
                format!(
                    "manager holds non-reserved {table_nonres:?} reserved {table_res:?}; history says {:?} / {:?}",
                    self.admitted, self.reserved_connected
                )
            },
        );
        let total = self.pm.total_peers_connected();
        ctx.check(
            P,
            "manager-table-differs-from-history",
            total == self.admitted.len() + self.reserved_connected.len(),
            || format!("total_peers_connected = {total}"),
        );
    }

    fn describe(&self, i: usize) -> String {
        match self.pm.get_peer_info(&self.peers[i].id) {
            Some(info) => format!(
                "score={:.4} height={:?} version={:?} addrs={} beats={} avg={}ms",
                info.score,
                info.heartbeat_data.block_height.map(|h| *h),
                info.client_version,
                info.peer_addresses.len(),
                info.heartbeat_data.durations.len(),
                info.heartbeat_data.average_time_between_heartbeats().as_millis()
            ),
            None => "not in table".to_string(),
        }
    }
}

pub fn run(ctx: &mut Ctx) {
    let rt = tokio::runtime::Builder::new_current_thread()
        .enable_time()
        .start_paused(true)
        .build()
        .expect("runtime");
    rt.block_on(run_inner(ctx));
}

async fn run_inner(ctx: &mut Ctx) {
    ctx.scope(P);
    let thorough = ctx.tier == Tier::Thorough;
    // ---- configuration ----
    let max = ctx.tape.choose(if thorough { 7 } else { 5 }) as usize;
    let n_nonres = 1 + ctx.tape.choose(if thorough { 10 } else { 7 }) as usize;
    let n_res = ctx.tape.choose(4) as usize;
    let reserved_only = ctx.tape.chance(1, 12);
    let steps = 8 + ctx.tape.choose(if thorough { 250 } else { 90 });
    // workload mix (swarm): some runs never score, some never hang up, ...
    let w_connect = 30;
    let w_deliver = *ctx.tape.pick(&[60u64, 200, 25]);
    let w_close = *ctx.tape.pick(&[25u64, 25, 10, 40]);
    let w_deliver_close = 20;
    let w_identify = *ctx.tape.pick(&[6u64, 0, 12]);
    let w_heartbeat = *ctx.tape.pick(&[10u64, 0, 20]);
    let w_score = *ctx.tape.pick(&[15u64, 0, 30]);
    let w_gossip = *ctx.tape.pick(&[5u64, 0, 10]);
    let w_decay = *ctx.tape.pick(&[4u64, 0, 10]);
    let w_time = 8;

    let mut peers = Vec::new();
    let mut index = BTreeMap::new();
    for n in 0..(n_nonres + n_res) {
        let id = peer_id(n as u32);
        index.insert(id, n);
        peers.push(SimPeer {
            id,
            reserved: n >= n_nonres,
            open: 0,
            closing: 0,
            banned: false,
        });
    }
    let reserved_addrs: Vec<Multiaddr> = peers
        .iter()
        .enumerate()
        .filter(|(_, p)| p.reserved)
        .map(|(n, p)| {
            Multiaddr::from_str(&format!("/ip4/10.0.0.{}/tcp/30333/p2p/{}", n + 1, p.id))
                .expect("multiaddr")
        })
        .collect();
    ctx.ev(format!(
        "cfg max_non_reserved={max} non_reserved_peers={n_nonres} reserved_peers={n_res} reserved_only_mode={reserved_only} steps={steps}"
    ));

    // ---- the real components, wired as FuelP2PService::new does ----
    let (writer, reader) = ConnectionState::new();
    let tracker = VerifConnectionTracker::new(
        &reserved_addrs,
        if reserved_only { None } else { Some(reader) },
    );
    let (tx, updates) = tokio::sync::broadcast::channel(64);
    use fuel_core_p2p::TryPeerId;
    let reserved_set = reserved_addrs
        .iter()
        .filter_map(|m| m.try_to_peer_id())
        .collect();
    let pm = PeerManager::new(tx, reserved_set, writer, max);

    let mut w = World {
        pm,
        tracker,
        peers,
        index,
        max,
        reserved_only,
        admitted: BTreeSet::new(),
        reserved_connected: BTreeSet::new(),
        shadow_flag: true,
        bans: Bans::default(),
        fresh_counter: 0,
        updates,
        queue: Default::default(),
    };
    w.invariants(ctx);

    let weights = [
        w_deliver,
        w_connect,
        w_close,
        w_deliver_close,
        w_identify,
        w_heartbeat,
        w_score,
        w_gossip,
        w_decay,
        w_time,
    ];
    for _ in 0..steps {
        if ctx.failed() {
            return;
        }
        match ctx.tape.weighted(&weights) {
            // ---- the next queued swarm event reaches the manager ----
            0 => {
                if w.queue.is_empty() {
                    continue;
                }
                w.deliver(ctx);
            }
            // ---- a connection attempt ----
            1 => {
                let candidates: Vec<usize> =
                    (0..w.peers.len()).filter(|&i| !w.peers[i].banned).collect();
                if candidates.is_empty() {
                    continue;
                }
                let i = *ctx.tape.pick(&candidates);
                w.attempt(ctx, i);
            }
            // ---- a remote peer hangs up one connection ----
            2 => {
                let candidates: Vec<usize> =
                    (0..w.peers.len()).filter(|&i| w.peers[i].open > 0).collect();
                if candidates.is_empty() {
                    continue;
                }
                let i = *ctx.tape.pick(&candidates);
                ctx.op(format!(
                    "hang-up {} (pool connections={}+{})",
                    w.name(i),
                    w.peers[i].open,
                    w.peers[i].closing
                ));
                w.close_one(ctx, i, false);
            }
            // ---- a close initiated by the swarm completes ----
            3 => {
                let candidates: Vec<usize> =
                    (0..w.peers.len()).filter(|&i| w.peers[i].closing > 0).collect();
                if candidates.is_empty() {
                    continue;
                }
                let i = *ctx.tape.pick(&candidates);
                ctx.op(format!(
                    "close-completes {} (pool connections={}+{})",
                    w.name(i),
                    w.peers[i].open,
                    w.peers[i].closing
                ));
                w.close_one(ctx, i, true);
            }
            // ---- identify ----
            4 => {
                let i = ctx.tape.below(w.peers.len());
                let n_addr = ctx.tape.small(3) as usize;
                let addrs: Vec<Multiaddr> = (0..n_addr)
                    .map(|k| {
                        Multiaddr::from_str(&format!(
                            "/ip4/10.1.{}.{}/tcp/30333",
                            i % 250,
                            k + ctx.tape.choose(3) as usize
                        ))
                        .expect("multiaddr")
                    })
                    .collect();
                let agent = format!("fuel-core/{}", ctx.tape.choose(3));
                ctx.op(format!("identify {} addrs={n_addr} agent={agent}", w.name(i)));
                let id = w.peers[i].id;
                w.pm.handle_peer_identified(&id, addrs, agent);
                ctx.ev(format!("  {}", w.describe(i)));
            }
            // ---- heartbeat with a block height ----
            5 => {
                let i = ctx.tape.below(w.peers.len());
                let h = ctx.tape.choose(1000) as u32;
                ctx.op(format!("heartbeat {} height={h}", w.name(i)));
                let id = w.peers[i].id;
                w.pm.handle_peer_info_updated(&id, BlockHeight::from(h));
                ctx.ev(format!("  {}", w.describe(i)));
                let q = ctx.tape.choose(1000) as u32;
                // the chosen peer is random (thread_rng): only presence is deterministic
                let found = w.pm.get_peer_id_with_height(&BlockHeight::from(q)).is_some();
                ctx.ev(format!("  peer with height >= {q}: {found}"));
            }
            // ---- application score report ----
            6 => {
                let i = ctx.tape.below(w.peers.len());
                let score = match ctx.tape.choose(12) {
                    0 => 5.0,
                    1 => -5.0,
                    2 => 50.0,
                    3 => -50.0,
                    4 => 0.1,
                    5 => -100.0,
                    6 => 150.0,
                    7 => 151.0,
                    8 => 1e9,
                    9 => -1e9,
                    10 => f64::MAX,
                    _ => -(ctx.tape.choose(60) as f64),
                };
                ctx.op(format!("report {} score={score:e}", w.name(i)));
                let id = w.peers[i].id;
                let before = w.bans.banned.len();
                w.pm.update_app_score(id, score, "sim", &mut w.bans);
                ctx.ev(format!("  {}", w.describe(i)));
                if score > 0.0
                    && w.pm
                        .get_peer_info(&id)
                        .map(|x| x.score == MAX_APP_SCORE)
                        .unwrap_or(false)
                {
                    ctx.probe("score_clamped_at_max");
                }
                if w.pm
                    .get_peer_info(&id)
                    .map(|x| x.score < MIN_APP_SCORE)
                    .unwrap_or(false)
                {
                    ctx.probe("score_below_min");
                }
                w.apply_bans(ctx, before);
            }
            // ---- gossipsub score update ----
            7 => {
                let i = ctx.tape.below(w.peers.len());
                let score = match ctx.tape.choose(6) {
                    0 => 0.0,
                    1 => -1.0,
                    2 => -79.0,
                    3 => -80.0,
                    4 => -81.0,
                    _ => -1e6,
                };
                ctx.op(format!("gossip-score {} {score}", w.name(i)));
                let id = w.peers[i].id;
                let before = w.bans.banned.len();
                w.pm.handle_gossip_score_update(id, score, &mut w.bans);
                w.apply_bans(ctx, before);
            }
            // ---- reputation decay tick ----
            8 => {
                ctx.op("decay");
                w.pm.batch_update_score_with_decay();
            }
            // ---- time passes ----
            _ => {
                let ms = *ctx.tape.pick(&[10u64, 500, 1000, 5000, 30_000, 120_000]);
                ctx.ev(format!("time +{ms}ms"));
                tokio::time::advance(Duration::from_millis(ms)).await;
                ctx.sim_ms += ms;
            }
        }
        while let Ok(n) = w.updates.try_recv() {
            ctx.ev(format!("  reserved peers connected: {n}"));
        }
        if ctx.failed() {
            return;
        }
        w.invariants(ctx);
    }
    // the swarm goes quiet: everything queued reaches the manager
    while !w.queue.is_empty() && !ctx.failed() {
        w.deliver(ctx);
        w.invariants(ctx);
    }
    if w.admitted.len() == w.max && w.max > 0 {
        ctx.probe("ends_full");
    }
}
