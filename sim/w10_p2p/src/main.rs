//! W10 p2p-local — the p2p crate's local decision logic under simulation.
//!
//! C31: real `PeerManager` + real `ConnectionTracker` (seqlock reader of the connection state
//!      the manager writes) under a simulated libp2p swarm with simulated remote peers.
//! C32: real `CachedView`, real request handling `Task` (over a simulated network service, a
//!      simulated database and tx pool) and the real request/response codec over simulated
//!      substreams.

mod cached;
mod chain;
mod codec;
mod payload;
mod msg;
mod peers;
mod pipeline;
mod stream;

use simkit::{
    Ctx,
    Tier,
    World,
};

struct P2pLocal;

impl World for P2pLocal {
    fn name(&self) -> &'static str {
        "w10_p2p"
    }
    fn properties(&self) -> Vec<&'static str> {
        vec!["C31", "C32"]
    }
    fn real_components(&self) -> Vec<&'static str> {
        vec![
            "fuel_core_p2p::peer_manager::PeerManager (handle_peer_connected/disconnect/identified/info_updated, update_app_score, handle_gossip_score_update, batch_update_score_with_decay)",
            "fuel_core_p2p::peer_manager::ConnectionState behind fuel_core_services::seqlock (writer in the manager, reader in the tracker)",
            "fuel_core_p2p::config::connection_tracker::ConnectionTracker::allow_peer (Approver) [hook]",
            "fuel_core_p2p::cached_view::CachedView (quick_cache) [hook; hasher seeded for reproducibility]",
            "fuel_core_p2p::service::Task::run / process_request / handle_db_request / handle_full_transactions_request with SyncProcessor and AsyncProcessor (0 extra threads) [hook constructor]",
            "fuel_core_p2p::codecs::request_response::RequestResponseMessageHandler<PostcardCodec> (read/write request/response, V1 and V2)",
            "request_response::messages::{RequestMessage, V1ResponseMessage, V2ResponseMessage} serde + postcard",
        ]
    }
    fn stubs(&self) -> Vec<&'static str> {
        vec![
            "libp2p swarm, transport upgrade and remote peers (simulated: connection counts per peer, PeerConnected per connection, PeerDisconnected on the last close, block list)",
            "Punisher (records ban_peer calls; the simulated swarm then closes and blocks the peer)",
            "P2pDb / AtomicView (model chain with the real adapter's all-or-nothing range semantics, snapshots, injected read errors)",
            "TaskP2PService (event queue in, responses out), Broadcast (no-op), TxPool (model pool), BlockHeightImporter stream",
            "substreams (futures AsyncRead/AsyncWrite with short transfers, Pending, EOF, errors)",
        ]
    }
    fn default_runs(&self, prop: &str, tier: Tier) -> u64 {
        match (prop, tier) {
            ("C31", Tier::Quick) => 300_000,
            ("C31", Tier::Thorough) => 4_000_000,
            (_, Tier::Quick) => 80_000,
            (_, Tier::Thorough) => 1_200_000,
        }
    }
    fn nontrivial_min_ops(&self, _prop: &str) -> u64 {
        5
    }
    fn assumptions(&self, prop: &str) -> Vec<String> {
        match prop {
            "C31" => vec![
                "the simulated swarm follows p2p_service.rs/peer_report.rs: allow_peer is asked for every connection attempt, PeerConnected is delivered per established connection, PeerDisconnected only when the last connection of a peer closed, a banned peer is disconnected and cannot reconnect".into(),
                "'a slot is free' = fewer non-reserved peers than the limit are connected according to the history of manager decisions (admitted and not yet reported disconnected)".into(),
                "scores reported are finite (no NaN)".into(),
            ],
            _ => vec![
                "the database port has the real adapter's semantics: a range is answered completely or with None, blocks are immutable and the chain only grows".into(),
                "the cache hasher is seeded (guarded constructor) instead of process-random, everything else in CachedView is the production code; database and tx-pool lookups run with 0 extra threads (inline / current-thread runtime) so that a run is deterministic".into(),
                "a view older than the cache content may be served blocks appended after it was taken; this is accepted (immutable blocks) and counted as a probe".into(),
                "over protocol V1 an error response is expected to arrive as the V1 'empty response' error (the protocol has no error codes); the decode-only error code `Unknown` is expected to be unencodable over V2".into(),
                "InboundRequestId values are produced by transmuting a u64 (libp2p has no public constructor); size and Display are checked at run time".into(),
            ],
        }
    }

    fn run(&self, ctx: &mut Ctx) {
        match ctx.prop.as_str() {
            "C31" => peers::run(ctx),
            _ => match ctx.tape.weighted(&[30, 35, 35]) {
                0 => cached::run(ctx),
                1 => pipeline::run(ctx),
                _ => codec::run(ctx),
            },
        }
    }
}

fn main() {
    simkit::cli::main_world(&P2pLocal)
}
