//! C32 (a)+(b)+(c) end to end — simulated remote peers send requests to the REAL request handling
//! `Task` (built through the guarded hook over a simulated `TaskP2PService`, the route the
//! crate's own tests use), which reads through the REAL `CachedView` from the simulated
//! database; requests and responses travel through the REAL `RequestResponseMessageHandler`
//! (postcard codec) over simulated substreams with short reads and writes.
//!
//!   requester --write_request--> [substream] --read_request--> Task --(CachedView/DB | tx pool)
//!   requester <--read_response-- [substream] <--write_response-- response
//!
//! Oracle: a range longer than the limit is refused; otherwise the response carries exactly what
//! the database holds for the range (an error when it does not hold the range, or when a read
//! error was injected); the message the requester decodes is the message that was sent.

use crate::{
    chain::{
        self,
        SimDb,
    },
    payload,
    msg::{
        code_num,
        expected_after,
        pool_eq,
        req_desc,
        resp_desc,
        resp_eq,
        txs_eq,
    },
    stream::{
        Pace,
        ReadFault,
        Sink,
        Source,
        WriteFault,
    },
};
use fuel_core_p2p::{
    PeerId,
    codecs::{
        postcard::PostcardCodec,
        request_response::RequestResponseMessageHandler,
    },
    gossipsub::messages::GossipsubBroadcastRequest,
    p2p_service::FuelP2PEvent,
    peer_manager::PeerInfo,
    ports::{
        P2PPreConfirmationGossipData,
        TxPool,
    },
    request_response::{
        messages::{
            RequestMessage,
            ResponseSender,
            V2ResponseMessage,
        },
        protocols::RequestResponseProtocol,
    },
    service::{
        Broadcast,
        TaskP2PService,
    },
    verif_api::{
        VerifTaskConfig,
        new_task,
    },
};
use fuel_core_services::{
    RunnableTask,
    State,
    StateWatcher,
    TaskNextAction,
};
use fuel_core_types::{
    fuel_tx::{
        Transaction,
        TxId,
    },
    fuel_types::BlockHeight,
    services::p2p::{
        BlockHeightHeartbeatData,
        GossipsubMessageAcceptance,
        GossipsubMessageInfo,
        NetworkableTransactionPool,
        PeerId as FuelPeerId,
        TransactionGossipData,
        peer_reputation::AppScore,
    },
};
use futures::future::BoxFuture;
use libp2p::request_response::{
    Codec,
    InboundRequestId,
};
use simkit::{
    Ctx,
    Tier,
};
use std::{
    collections::VecDeque,
    num::NonZeroU32,
    sync::{
        Arc,
        Mutex,
    },
    task::{
        Poll,
        Waker,
    },
    time::Duration,
};

const P: &str = "C32";

// ---------------------------------------------------------------------------------------------
// simulated network service under the Task

#[derive(Default)]
struct NetState {
    events: VecDeque<FuelP2PEvent>,
    event_waker: Option<Waker>,
    responses: Vec<(InboundRequestId, V2ResponseMessage)>,
    heights: Vec<u32>,
    new_heights: VecDeque<u32>,
    height_waker: Option<Waker>,
}

struct FakeP2P(Arc<Mutex<NetState>>);

impl TaskP2PService for FakeP2P {
    fn get_all_peer_info(&self) -> Vec<(&PeerId, &PeerInfo)> {
        Vec::new()
    }
    fn get_peer_id_with_height(&self, _: &BlockHeight) -> Option<PeerId> {
        None
    }
    fn next_event(&mut self) -> BoxFuture<'_, Option<FuelP2PEvent>> {
        let st = self.0.clone();
        Box::pin(futures::future::poll_fn(move |cx| {
            let mut g = st.lock().unwrap();
            match g.events.pop_front() {
                Some(e) => Poll::Ready(Some(e)),
                None => {
                    g.event_waker = Some(cx.waker().clone());
                    Poll::Pending
                }
            }
        }))
    }
    fn publish_message(&mut self, _: GossipsubBroadcastRequest) -> anyhow::Result<()> {
        Ok(())
    }
    fn send_request_msg(
        &mut self,
        _: Option<PeerId>,
        _: RequestMessage,
        _: ResponseSender,
    ) -> anyhow::Result<()> {
        Ok(())
    }
    fn send_response_msg(
        &mut self,
        request_id: InboundRequestId,
        message: V2ResponseMessage,
    ) -> anyhow::Result<()> {
        self.0.lock().unwrap().responses.push((request_id, message));
        Ok(())
    }
    fn report_message(
        &mut self,
        _: GossipsubMessageInfo,
        _: GossipsubMessageAcceptance,
    ) -> anyhow::Result<()> {
        Ok(())
    }
    fn report_peer(&mut self, _: PeerId, _: AppScore, _: &str) -> anyhow::Result<()> {
        Ok(())
    }
    fn update_block_height(&mut self, height: BlockHeight) -> anyhow::Result<()> {
        self.0.lock().unwrap().heights.push(*height);
        Ok(())
    }
    fn update_metrics<T>(&self, _: T)
    where
        T: FnOnce(),
    {
    }
}

struct NoBroadcast;

impl Broadcast for NoBroadcast {
    fn report_peer(&self, _: FuelPeerId, _: AppScore, _: &'static str) -> anyhow::Result<()> {
        Ok(())
    }
    fn block_height_broadcast(&self, _: BlockHeightHeartbeatData) -> anyhow::Result<()> {
        Ok(())
    }
    fn tx_broadcast(&self, _: TransactionGossipData) -> anyhow::Result<()> {
        Ok(())
    }
    fn pre_confirmation_broadcast(&self, _: P2PPreConfirmationGossipData) -> anyhow::Result<()> {
        Ok(())
    }
    fn new_tx_subscription_broadcast(&self, _: FuelPeerId) -> anyhow::Result<()> {
        Ok(())
    }
}

#[derive(Default)]
struct PoolState {
    txs: Vec<(TxId, Transaction)>,
    asked_limits: Vec<usize>,
}

#[derive(Clone)]
struct SimTxPool(Arc<Mutex<PoolState>>);

impl TxPool for SimTxPool {
    async fn get_tx_ids(&self, max_ids: usize) -> anyhow::Result<Vec<TxId>> {
        let mut g = self.0.lock().unwrap();
        g.asked_limits.push(max_ids);
        Ok(g.txs.iter().take(max_ids).map(|(id, _)| *id).collect())
    }
    async fn get_full_txs(
        &self,
        tx_ids: Vec<TxId>,
    ) -> anyhow::Result<Vec<Option<NetworkableTransactionPool>>> {
        let g = self.0.lock().unwrap();
        Ok(tx_ids
            .iter()
            .map(|id| {
                g.txs
                    .iter()
                    .find(|(k, _)| k == id)
                    .map(|(_, tx)| NetworkableTransactionPool::Transaction(tx.clone()))
            })
            .collect())
    }
}

fn request_id(n: u64) -> InboundRequestId {
    // libp2p offers no constructor; the id is a newtype over u64 (checked, not assumed)
    assert_eq!(std::mem::size_of::<InboundRequestId>(), 8);
    let id: InboundRequestId = unsafe { std::mem::transmute::<u64, InboundRequestId>(n) };
    assert_eq!(id.to_string(), n.to_string());
    id
}

fn range_len(r: &std::ops::Range<u32>) -> usize {
    r.end.saturating_sub(r.start) as usize
}

pub fn run(ctx: &mut Ctx) {
    let rt = tokio::runtime::Builder::new_current_thread()
        .enable_time()
        .start_paused(true)
        .build()
        .expect("runtime");
    rt.block_on(run_inner(ctx));
}

async fn run_inner(ctx: &mut Ctx) {
    ctx.scope(P);
    // `SyncProcessor::new` / `AsyncProcessor::new` register two metrics each in the process-wide
    // registry and re-encode the whole registry on every registration: with one Task per run the
    // cost per run would grow with the number of runs a worker process has executed. Start every
    // run from an empty registry (metrics are not observed by this world).
    *fuel_core_metrics::global_registry().registry.lock() = Default::default();
    let thorough = ctx.tier == Tier::Thorough;
    // ---- configuration ----
    let max_headers = *ctx.tape.pick(&[3usize, 0, 1, 2, 5, 100]);
    let max_txs = *ctx.tape.pick(&[3usize, 0, 1, 5, 10_000]);
    let capacity = *ctx.tape.pick(&[4usize, 1, 2, 8, 1535]);
    let hash_seed = ctx.tape.choose(8);
    let max_size = *ctx.tape.pick(&[260u32 * 1024 * 1024, 16_384, 2_048, 300]);
    let fault_pct = *ctx.tape.pick(&[0u64, 0, 10, 30]);
    let payload = *ctx.tape.pick(&[0usize, 8, 64]);
    let block_txs = ctx.tape.choose(3);
    let steps = 5 + ctx.tape.choose(if thorough { 100 } else { 35 });
    let db = SimDb::new();
    let initial = ctx.tape.small(10) as usize;
    db.append(&mut ctx.tape, initial, block_txs, payload);
    let pool = SimTxPool(Arc::new(Mutex::new(PoolState::default())));
    let pool_size = ctx.tape.small(6) as usize;
    for _ in 0..pool_size {
        let id = payload::tx_id(&mut ctx.tape);
        let tx = payload::transaction(&mut ctx.tape, payload);
        pool.0.lock().unwrap().txs.push((id, tx));
    }
    ctx.ev(format!(
        "cfg pipeline max_headers_per_request={max_headers} max_txs_per_request={max_txs} cache={capacity}/{hash_seed} max_message_size={max_size} db_fault={fault_pct}% chain={initial} pool={pool_size} steps={steps}"
    ));

    let net = Arc::new(Mutex::new(NetState::default()));
    let heights_net = net.clone();
    let next_block_height = Box::pin(futures::stream::poll_fn(move |cx| {
        let mut g = heights_net.lock().unwrap();
        match g.new_heights.pop_front() {
            Some(h) => Poll::Ready(Some(BlockHeight::from(h))),
            None => {
                g.height_waker = Some(cx.waker().clone());
                Poll::Pending
            }
        }
    }));
    let (mut task, _request_sender) = new_task(
        VerifTaskConfig {
            max_headers_per_request: max_headers,
            max_txs_per_request: max_txs,
            response_timeout: Duration::from_secs(20),
            heartbeat_check_interval: Duration::from_secs(3600),
            heartbeat_max_avg_interval: Duration::from_secs(20),
            heartbeat_max_time_since_last: Duration::from_secs(40),
            database_read_threads: 0,
            tx_pool_threads: 0,
            database_pending_tasks: 16,
            tx_pool_pending_tasks: 16,
            cache_size: capacity,
            cache_hash_seed: Some(hash_seed),
            request_channel_size: 64,
        },
        FakeP2P(net.clone()),
        db.clone(),
        next_block_height,
        NoBroadcast,
        pool.clone(),
    )
    .expect("task");
    let (_state_tx, state_rx) = tokio::sync::watch::channel(State::Started);
    let mut watcher = StateWatcher::from(state_rx);
    let mut handler: RequestResponseMessageHandler<PostcardCodec> =
        RequestResponseMessageHandler::new(NonZeroU32::new(max_size).unwrap());

    let mut prev = 0u32..1u32;
    let mut next_id = 1u64;
    for _ in 0..steps {
        if ctx.failed() {
            return;
        }
        match ctx.tape.weighted(&[75, 17, 8]) {
            // ---- a block is imported ----
            1 => {
                db.append(&mut ctx.tape, 1, block_txs, payload);
                let h = db.len() as u32 - 1;
                {
                    let mut g = net.lock().unwrap();
                    g.new_heights.push_back(h);
                    if let Some(w) = g.height_waker.take() {
                        w.wake();
                    }
                }
                ctx.ev(format!("block {h} imported"));
                let action = task.run(&mut watcher).await;
                let seen = net.lock().unwrap().heights.last().copied();
                ctx.ev(format!(
                    "  task told the network height {seen:?} ({})",
                    action_name(&action)
                ));
                ctx.sim_ms += 1000;
            }
            // ---- time passes ----
            2 => {
                let ms = *ctx.tape.pick(&[1u64, 100, 5_000, 19_000]);
                tokio::time::advance(Duration::from_millis(ms)).await;
                ctx.ev(format!("time +{ms}ms"));
                ctx.sim_ms += ms;
            }
            // ---- a remote peer sends a request ----
            _ => {
                let len = db.len() as u32;
                let req = match ctx.tape.choose(4) {
                    0 => RequestMessage::SealedHeaders(chain::draw_range(
                        &mut ctx.tape,
                        len,
                        &prev,
                        max_headers.min(10) as u32 + 2,
                    )),
                    1 => RequestMessage::Transactions(chain::draw_range(
                        &mut ctx.tape,
                        len,
                        &prev,
                        max_headers.min(10) as u32 + 2,
                    )),
                    2 => {
                        let n = ctx.tape.small(max_txs.min(10) as u64 + 2);
                        let known: Vec<TxId> =
                            pool.0.lock().unwrap().txs.iter().map(|(k, _)| *k).collect();
                        RequestMessage::TxPoolFullTransactions(
                            (0..n)
                                .map(|_| {
                                    if !known.is_empty() && ctx.tape.chance(2, 3) {
                                        *ctx.tape.pick(&known)
                                    } else {
                                        payload::tx_id(&mut ctx.tape)
                                    }
                                })
                                .collect(),
                        )
                    }
                    _ => RequestMessage::TxPoolAllTransactionsIds,
                };
                if let RequestMessage::SealedHeaders(r) | RequestMessage::Transactions(r) = &req {
                    prev = r.clone();
                }
                let proto = if ctx.tape.chance(1, 3) {
                    RequestResponseProtocol::V1
                } else {
                    RequestResponseProtocol::V2
                };
                let inject = fault_pct > 0 && ctx.tape.chance(fault_pct, 100);
                let nth = if inject { ctx.tape.small(5) as u32 } else { 0 };
                let paces = [
                    Pace::draw(&mut ctx.tape),
                    Pace::draw(&mut ctx.tape),
                    Pace::draw(&mut ctx.tape),
                    Pace::draw(&mut ctx.tape),
                ];
                let id = next_id;
                next_id += 1;
                ctx.op(format!(
                    "request #{id} {} over {} chain_len={len} inject_db_error={inject}",
                    req_desc(&req),
                    proto.as_ref()
                ));

                // -- 1. the request travels to us
                let mut sink = Sink::new(paces[0].clone(), WriteFault::None);
                let w = handler.write_request(&proto, &mut sink, req.clone()).await;
                if !ctx.check(P, "codec:write-failed-without-fault", w.is_ok(), || {
                    format!("write_request failed on a healthy stream: {w:?}")
                }) {
                    return;
                }
                let wire = sink.buf;
                let wire_len = wire.len();
                let mut src = Source::new(wire, paces[1].clone(), ReadFault::None);
                let got = handler.read_request(&proto, &mut src).await;
                ctx.ev(format!(
                    "  request frame {wire_len} bytes -> decoded ok={}",
                    got.is_ok()
                ));
                let decoded = match got {
                    Ok(r) => {
                        if wire_len as u64 > max_size as u64 {
                            ctx.check(P, "codec:oversize-frame-accepted", false, || {
                                format!("request of {wire_len} bytes accepted, limit {max_size}")
                            });
                            return;
                        }
                        if !ctx.check(P, "codec:message-changed-in-transit", r == req, || {
                            format!("sent {req:?}, received {r:?}")
                        }) {
                            return;
                        }
                        r
                    }
                    Err(e) => {
                        if wire_len as u64 > max_size as u64 {
                            ctx.probe("oversize_request_refused");
                            ctx.check(P, "codec:oversize-frame-accepted", true, String::new);
                            continue;
                        }
                        ctx.check(P, "codec:message-within-limit-rejected", false, || {
                            format!("request of {wire_len} bytes (limit {max_size}) not decoded: {e}")
                        });
                        return;
                    }
                };

                // -- 2. the real Task handles it
                let rid = request_id(id);
                let view_len = db.len();
                if inject {
                    db.arm_fault(nth);
                }
                {
                    let mut g = net.lock().unwrap();
                    g.events.push_back(FuelP2PEvent::InboundRequestMessage {
                        request_id: rid,
                        request_message: decoded,
                    });
                    if let Some(w) = g.event_waker.take() {
                        w.wake();
                    }
                }
                let mut response = None;
                for _ in 0..6 {
                    let action = task.run(&mut watcher).await;
                    ctx.ev(format!("  task.run -> {}", action_name(&action)));
                    let mut g = net.lock().unwrap();
                    if let Some(pos) = g.responses.iter().position(|(i, _)| *i == rid) {
                        response = Some(g.responses.remove(pos).1);
                        break;
                    }
                }
                let fired = db.disarm();
                if fired {
                    ctx.fault("db_read_error");
                }
                for (w, s, e, o) in db.drain_calls() {
                    ctx.ev(format!("  db {w} {s}..{e} -> {o}"));
                }
                let stray = net.lock().unwrap().responses.len();
                ctx.check(P, "handler:response-for-unknown-request", stray == 0, || {
                    format!("{stray} responses for requests nobody sent")
                });
                let Some(response) = response else {
                    ctx.check(P, "handler:no-response", false, || {
                        format!("no response to request #{id} ({}) after 6 task steps", req_desc(&req))
                    });
                    return;
                };
                ctx.ev(format!("  response: {}", resp_desc(&response)));

                // -- 3. what was served against what the database holds
                if !judge_response(ctx, &req, &response, &db, view_len, fired, max_headers, max_txs, &pool) {
                    return;
                }

                // -- 4. the response travels back
                let mut sink = Sink::new(paces[2].clone(), WriteFault::None);
                let w = handler
                    .write_response(&proto, &mut sink, response.clone())
                    .await;
                if !ctx.check(P, "codec:write-failed-without-fault", w.is_ok(), || {
                    format!("write_response failed on a healthy stream: {w:?}")
                }) {
                    return;
                }
                let wire = sink.buf;
                let wire_len = wire.len();
                let mut src = Source::new(wire, paces[3].clone(), ReadFault::None);
                let got = handler.read_response(&proto, &mut src).await;
                let want = expected_after(&proto, &response);
                match got {
                    Ok(m) => {
                        ctx.ev(format!(
                            "  response frame {wire_len} bytes -> {}",
                            resp_desc(&m)
                        ));
                        if wire_len as u64 > max_size as u64 {
                            ctx.check(P, "codec:oversize-frame-accepted", false, || {
                                format!("response of {wire_len} bytes accepted, limit {max_size}")
                            });
                            return;
                        }
                        ctx.check(P, "codec:message-changed-in-transit", resp_eq(&m, &want), || {
                            format!(
                                "sent {} over {}, received {}",
                                resp_desc(&response),
                                proto.as_ref(),
                                resp_desc(&m)
                            )
                        });
                    }
                    Err(e) => {
                        ctx.ev(format!("  response frame {wire_len} bytes -> error"));
                        if wire_len as u64 > max_size as u64 {
                            ctx.probe("oversize_response_refused");
                            ctx.check(P, "codec:oversize-frame-accepted", true, String::new);
                        } else {
                            ctx.check(P, "codec:message-within-limit-rejected", false, || {
                                format!(
                                    "response of {wire_len} bytes (limit {max_size}) not decoded: {e}"
                                )
                            });
                        }
                    }
                }
            }
        }
    }
}

fn action_name(a: &TaskNextAction) -> &'static str {
    match a {
        TaskNextAction::Continue => "continue",
        TaskNextAction::Stop => "stop",
        TaskNextAction::ErrorContinue(_) => "error-continue",
    }
}

#[allow(clippy::too_many_arguments)]
fn judge_response(
    ctx: &mut Ctx,
    req: &RequestMessage,
    response: &V2ResponseMessage,
    db: &SimDb,
    view_len: usize,
    fault_fired: bool,
    max_headers: usize,
    max_txs: usize,
    pool: &SimTxPool,
) -> bool {
    use V2ResponseMessage as R;
    match (req, response) {
        (RequestMessage::SealedHeaders(range), R::SealedHeaders(r)) => {
            let direct = db.direct_headers(view_len, range);
            judge_range(ctx, range, r, direct, fault_fired, max_headers, |a, b| a == b)
        }
        (RequestMessage::Transactions(range), R::Transactions(r)) => {
            let direct = db.direct_txs(view_len, range);
            judge_range(ctx, range, r, direct, fault_fired, max_headers, |a, b| txs_eq(a, b))
        }
        (RequestMessage::TxPoolFullTransactions(ids), R::TxPoolFullTransactions(r)) => {
            if ids.len() > max_txs {
                ctx.probe("too_many_tx_ids_requested");
                return ctx.check(
                    P,
                    "handler:oversize-request-not-refused",
                    matches!(r, Err(c) if code_num(c) == 1),
                    || {
                        format!(
                            "{} transactions requested, limit {max_txs}, response {}",
                            ids.len(),
                            resp_desc(response)
                        )
                    },
                );
            }
            let g = pool.0.lock().unwrap();
            let want: Vec<Option<NetworkableTransactionPool>> = ids
                .iter()
                .map(|id| {
                    g.txs
                        .iter()
                        .find(|(k, _)| k == id)
                        .map(|(_, tx)| NetworkableTransactionPool::Transaction(tx.clone()))
                })
                .collect();
            match r {
                Ok(v) => ctx.check(P, "handler:txpool-answer-changed", pool_eq(v, &want), || {
                    "full transactions differ from what the pool returned".to_string()
                }),
                Err(c) => ctx.check(P, "handler:in-limit-request-refused", false, || {
                    format!(
                        "{} transactions requested (limit {max_txs}) refused with code {}",
                        ids.len(),
                        code_num(c)
                    )
                }),
            }
        }
        (RequestMessage::TxPoolAllTransactionsIds, R::TxPoolAllTransactionsIds(r)) => {
            let mut g = pool.0.lock().unwrap();
            let asked = g.asked_limits.pop();
            let want: Vec<TxId> = g.txs.iter().take(max_txs).map(|(k, _)| *k).collect();
            drop(g);
            let ok = ctx.check(
                P,
                "handler:txpool-asked-for-more-than-allowed",
                asked == Some(max_txs),
                || format!("pool asked for {asked:?} ids, limit {max_txs}"),
            );
            ok && ctx.check(
                P,
                "handler:txpool-answer-changed",
                matches!(r, Ok(v) if *v == want),
                || format!("tx ids response {} differs from the pool's", resp_desc(response)),
            )
        }
        _ => ctx.check(P, "handler:response-of-wrong-kind", false, || {
            format!("request {} answered with {}", req_desc(req), resp_desc(response))
        }),
    }
}

fn judge_range<T>(
    ctx: &mut Ctx,
    range: &std::ops::Range<u32>,
    r: &Result<Vec<T>, fuel_core_p2p::request_response::messages::ResponseMessageErrorCode>,
    direct: Option<Vec<T>>,
    fault_fired: bool,
    max_len: usize,
    eq: impl Fn(&[T], &[T]) -> bool,
) -> bool {
    let n = range_len(range);
    if n > max_len {
        ctx.probe("range_over_limit_requested");
        return ctx.check(
            P,
            "handler:oversize-request-not-refused",
            matches!(r, Err(c) if code_num(c) == 1),
            || {
                format!(
                    "range {}..{} ({n} heights) exceeds the limit {max_len} but was answered with {}",
                    range.start,
                    range.end,
                    match r {
                        Ok(v) => format!("{} items", v.len()),
                        Err(c) => format!("error code {}", code_num(c)),
                    }
                )
            },
        );
    }
    if n == max_len {
        ctx.probe("range_exactly_at_limit");
    }
    match (r, &direct) {
        (Ok(v), Some(d)) => ctx.check(P, "handler:served-differs-from-db", eq(v, d), || {
            format!(
                "range {}..{}: served {} items, database holds {} (or contents differ)",
                range.start,
                range.end,
                v.len(),
                d.len()
            )
        }),
        (Ok(v), None) => ctx.check(P, "handler:served-range-db-does-not-hold", false, || {
            format!(
                "range {}..{}: served {} items, the database does not hold the whole range",
                range.start,
                range.end,
                v.len()
            )
        }),
        (Err(c), Some(d)) => {
            if code_num(c) == 1 {
                return ctx.check(P, "handler:in-limit-request-refused", false, || {
                    format!(
                        "range {}..{} ({n} heights, limit {max_len}) refused as too large",
                        range.start, range.end
                    )
                });
            }
            if fault_fired {
                ctx.probe("db_error_surfaced_as_error_response");
                return true;
            }
            ctx.check(P, "handler:error-although-db-holds-range", false, || {
                format!(
                    "range {}..{}: error code {} although the database holds all {} items",
                    range.start,
                    range.end,
                    code_num(c),
                    d.len()
                )
            })
        }
        (Err(c), None) => {
            ctx.probe("unavailable_range_answered_with_error");
            ctx.check(P, "handler:in-limit-request-refused", code_num(c) != 1, || {
                format!(
                    "range {}..{} ({n} heights, limit {max_len}) refused as too large",
                    range.start, range.end
                )
            })
        }
    }
}
