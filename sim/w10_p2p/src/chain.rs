//! The simulated database behind the p2p `P2pDb` port: a model chain that only grows, views
//! that are snapshots of it, and injected read errors.
//!
//! The semantics mirror the real adapter (`Database::get_sealed_block_headers` /
//! `get_transactions_on_blocks`): heights are read one by one in ascending order; the first
//! missing height makes the whole answer `None`; a storage error aborts the call; an empty range
//! is `Some([])`.

use crate::payload;
use fuel_core_p2p::ports::P2pDb;
use fuel_core_storage::{
    Error as StorageError,
    Result as StorageResult,
    transactional::AtomicView,
};
use fuel_core_types::{
    blockchain::{
        SealedBlockHeader,
        consensus::Genesis,
    },
    services::p2p::Transactions,
};
use simkit::Tape;
use std::{
    ops::Range,
    sync::{
        Arc,
        Mutex,
    },
};

pub struct DbState {
    pub headers: Vec<SealedBlockHeader>,
    pub txs: Vec<Transactions>,
    /// Injected fault: the n-th (0-based) single-height read of the next call fails.
    pub fail_read: Option<u32>,
    pub fault_fired: bool,
    /// (what, start, end, outcome) of every port call since the last drain
    pub calls: Vec<(char, u32, u32, &'static str)>,
}

#[derive(Clone)]
pub struct SimDb(pub Arc<Mutex<DbState>>);

impl SimDb {
    pub fn new() -> Self {
        SimDb(Arc::new(Mutex::new(DbState {
            headers: Vec::new(),
            txs: Vec::new(),
            fail_read: None,
            fault_fired: false,
            calls: Vec::new(),
        })))
    }
    pub fn len(&self) -> usize {
        self.0.lock().unwrap().headers.len()
    }
    pub fn append(&self, t: &mut Tape, n: usize, max_txs: u64, payload: usize) {
        for _ in 0..n {
            let h = self.len() as u32;
            let header = payload::sealed_header(t, h);
            let mut txs = payload::transactions(t, max_txs, payload);
            // make the transactions of a height recognisable as well
            txs.0.push(
                fuel_core_types::fuel_tx::Transaction::script(
                    h as u64,
                    vec![],
                    h.to_be_bytes().to_vec(),
                    Default::default(),
                    vec![],
                    vec![],
                    vec![],
                )
                .into(),
            );
            let mut g = self.0.lock().unwrap();
            g.headers.push(header);
            g.txs.push(txs);
        }
    }
    pub fn view(&self) -> SimView {
        SimView {
            len: self.len(),
            st: self.0.clone(),
        }
    }
    pub fn arm_fault(&self, nth_read: u32) {
        let mut g = self.0.lock().unwrap();
        g.fail_read = Some(nth_read);
        g.fault_fired = false;
    }
    /// Disarm; returns whether the fault fired.
    pub fn disarm(&self) -> bool {
        let mut g = self.0.lock().unwrap();
        g.fail_read = None;
        std::mem::take(&mut g.fault_fired)
    }
    pub fn drain_calls(&self) -> Vec<(char, u32, u32, &'static str)> {
        std::mem::take(&mut self.0.lock().unwrap().calls)
    }
    /// The reference answer: what the database holds for `range` in a snapshot of `len` blocks.
    pub fn direct_headers(&self, len: usize, range: &Range<u32>) -> Option<Vec<SealedBlockHeader>> {
        let g = self.0.lock().unwrap();
        direct(&g.headers[..len], range)
    }
    pub fn direct_txs(&self, len: usize, range: &Range<u32>) -> Option<Vec<Transactions>> {
        let g = self.0.lock().unwrap();
        direct(&g.txs[..len], range)
    }
}

fn direct<T: Clone>(items: &[T], range: &Range<u32>) -> Option<Vec<T>> {
    if range.start >= range.end {
        return Some(Vec::new());
    }
    if range.end as usize > items.len() {
        return None;
    }
    Some(items[range.start as usize..range.end as usize].to_vec())
}

/// A snapshot: sees the first `len` blocks only.
pub struct SimView {
    pub len: usize,
    st: Arc<Mutex<DbState>>,
}

impl SimView {
    fn read<T: Clone>(
        &self,
        what: char,
        range: Range<u32>,
        pick: impl Fn(&DbState, usize) -> T,
    ) -> StorageResult<Option<Vec<T>>> {
        let mut g = self.st.lock().unwrap();
        let mut out = Vec::new();
        let mut reads = 0u32;
        for h in range.clone() {
            if g.fail_read == Some(reads) {
                g.fault_fired = true;
                g.fail_read = None;
                g.calls.push((what, range.start, range.end, "error"));
                return Err(StorageError::Other(anyhow::anyhow!(
                    "injected storage read error"
                )));
            }
            reads += 1;
            if h as usize >= self.len {
                g.calls.push((what, range.start, range.end, "none"));
                return Ok(None);
            }
            out.push(pick(&g, h as usize));
        }
        g.calls.push((what, range.start, range.end, "some"));
        Ok(Some(out))
    }
}

impl P2pDb for SimView {
    fn get_sealed_headers(
        &self,
        block_height_range: Range<u32>,
    ) -> StorageResult<Option<Vec<SealedBlockHeader>>> {
        self.read('H', block_height_range, |g, h| g.headers[h].clone())
    }

    fn get_transactions(
        &self,
        block_height_range: Range<u32>,
    ) -> StorageResult<Option<Vec<Transactions>>> {
        self.read('T', block_height_range, |g, h| g.txs[h].clone())
    }

    fn get_genesis(&self) -> StorageResult<Genesis> {
        Ok(Genesis::default())
    }
}

impl AtomicView for SimDb {
    type LatestView = SimView;

    fn latest_view(&self) -> StorageResult<Self::LatestView> {
        Ok(self.view())
    }
}

/// A request range relative to a chain of `len` blocks and to the previous request: inside,
/// overlapping, past the tip, empty, reversed, repeated, huge.
pub fn draw_range(t: &mut Tape, len: u32, prev: &Range<u32>, max_len_hint: u32) -> Range<u32> {
    let span = |t: &mut Tape| 1 + t.small(max_len_hint as u64) as u32;
    match t.choose(12) {
        // inside the chain
        0 | 1 | 2 => {
            let start = t.choose(len.max(1) as u64) as u32;
            let n = span(t);
            start..start.saturating_add(n).min(len.max(start))
        }
        // the previous range again
        3 => prev.clone(),
        // overlapping the previous range: shifted / widened / narrowed
        4 => {
            let s = prev.start.saturating_sub(t.small(3) as u32);
            let e = prev.end.saturating_add(t.small(3) as u32);
            s..e
        }
        5 => {
            let d = 1 + t.small(3) as u32;
            prev.start.saturating_add(d)..prev.end.saturating_add(d)
        }
        6 => {
            let s = prev.start.saturating_add(t.small(2) as u32);
            let e = prev.end.saturating_sub(t.small(2) as u32);
            s..e
        }
        // crossing the tip
        7 => {
            let start = len.saturating_sub(t.small(4) as u32);
            start..len.saturating_add(1 + t.small(3) as u32)
        }
        // entirely past the tip
        8 => {
            let start = len.saturating_add(t.small(3) as u32);
            start..start.saturating_add(span(t))
        }
        // empty / reversed
        9 => {
            let start = t.choose(len as u64 + 3) as u32;
            if t.coin() {
                start..start
            } else {
                start..start.saturating_sub(1 + t.small(3) as u32)
            }
        }
        // ends exactly at the tip
        10 => {
            let n = span(t).min(len);
            len - n..len
        }
        // far away / huge
        _ => match t.choose(3) {
            0 => 0..u32::MAX,
            1 => u32::MAX - 2..u32::MAX,
            _ => 0..len.saturating_add(1000),
        },
    }
}
