//! Tape-driven generators for the payloads that travel through the p2p request/response
//! protocol: sealed block headers, transactions, request and response messages.
//!
//! Every byte string is expanded from ONE tape value (0 => all zero bytes) so that tapes stay
//! short and the minimiser can zero payloads.

use fuel_core_p2p::request_response::messages::{
    RequestMessage,
    ResponseMessageErrorCode,
    V2ResponseMessage,
};
use fuel_core_types::{
    blockchain::{
        SealedBlockHeader,
        consensus::{
            Consensus,
            Genesis,
            poa::PoAConsensus,
        },
        header::BlockHeader,
        primitives::DaBlockHeight,
    },
    fuel_crypto::Signature,
    fuel_tx::{
        BlobBody,
        BlobId,
        Input,
        Output,
        StorageSlot,
        Transaction,
        TxId,
        TxPointer,
        UpgradePurpose,
        UploadBody,
        UtxoId,
        Witness,
        input,
        output,
        policies::Policies,
    },
    fuel_types::{
        Address,
        AssetId,
        BlockHeight,
        Bytes32,
        ContractId,
        Nonce,
        Salt,
    },
    services::p2p::{
        NetworkableTransactionPool,
        Transactions,
    },
    tai64::Tai64,
};
use simkit::{
    Rng,
    Tape,
};

/// Expand one tape value into `len` bytes (0 => zeros).
pub fn fill(t: &mut Tape, len: usize) -> Vec<u8> {
    let s = t.choose(1 << 20);
    if s == 0 {
        return vec![0u8; len];
    }
    let mut r = Rng::new(s);
    let mut v = Vec::with_capacity(len);
    while v.len() < len {
        let x = r.next().to_le_bytes();
        let n = (len - v.len()).min(8);
        v.extend_from_slice(&x[..n]);
    }
    v
}

pub fn b32(t: &mut Tape) -> [u8; 32] {
    let v = fill(t, 32);
    let mut a = [0u8; 32];
    a.copy_from_slice(&v);
    a
}

pub fn bytes32(t: &mut Tape) -> Bytes32 {
    Bytes32::new(b32(t))
}

/// A byte string whose length is biased towards small values but may reach `max`.
pub fn blob(t: &mut Tape, max: usize) -> Vec<u8> {
    let len = match t.choose(4) {
        0 => 0,
        1 => t.choose(9) as usize,
        2 => t.choose(65) as usize,
        _ => t.choose(max as u64 + 1) as usize,
    }
    .min(max);
    fill(t, len)
}

pub fn word(t: &mut Tape) -> u64 {
    match t.choose(5) {
        0 => 0,
        1 => t.choose(128),
        2 => t.choose(1 << 20),
        3 => u64::MAX - t.choose(3),
        _ => t.choose(u64::MAX),
    }
}

pub fn small_u16(t: &mut Tape) -> u16 {
    match t.choose(4) {
        0 => 0,
        1 => t.choose(4) as u16,
        2 => t.choose(300) as u16,
        _ => u16::MAX - t.choose(2) as u16,
    }
}

/// A sealed header for `height`; the height is part of the header so that an item served for
/// the wrong height is recognisable.
pub fn sealed_header(t: &mut Tape, height: u32) -> SealedBlockHeader {
    let mut h = BlockHeader::new_block(BlockHeight::from(height), Tai64(word(t)));
    if t.coin() {
        h.set_da_height(DaBlockHeight(word(t)));
    }
    if t.coin() {
        h.set_previous_root(bytes32(t));
    }
    if t.coin() {
        h.set_transaction_root(bytes32(t));
        h.set_transactions_count(small_u16(t));
    }
    if t.chance(1, 4) {
        h.set_message_outbox_root(bytes32(t));
        h.set_message_receipt_count(t.choose(1 << 32) as u32);
    }
    h.recalculate_metadata();
    let consensus = if height == 0 || t.chance(1, 8) {
        Consensus::Genesis(Genesis {
            chain_config_hash: bytes32(t),
            coins_root: bytes32(t),
            contracts_root: bytes32(t),
            messages_root: bytes32(t),
            transactions_root: bytes32(t),
        })
    } else {
        let mut sig = [0u8; 64];
        sig.copy_from_slice(&fill(t, 64));
        Consensus::PoA(PoAConsensus::new(Signature::from_bytes(sig)))
    };
    SealedBlockHeader {
        entity: h,
        consensus,
    }
}

fn policies(t: &mut Tape) -> Policies {
    let mut p = Policies::new();
    if t.coin() {
        p = p.with_max_fee(word(t));
    }
    if t.chance(1, 3) {
        p = p.with_tip(word(t));
    }
    if t.chance(1, 4) {
        p = p.with_maturity(BlockHeight::from(t.choose(1 << 32) as u32));
    }
    if t.chance(1, 4) {
        p = p.with_witness_limit(word(t));
    }
    p
}

fn utxo(t: &mut Tape) -> UtxoId {
    UtxoId::new(TxId::new(b32(t)), small_u16(t))
}

fn tx_pointer(t: &mut Tape) -> TxPointer {
    TxPointer::new(BlockHeight::from(t.choose(1 << 32) as u32), small_u16(t))
}

fn one_input(t: &mut Tape, payload: usize) -> Input {
    match t.choose(7) {
        0 => Input::coin_signed(
            utxo(t),
            Address::new(b32(t)),
            word(t),
            AssetId::new(b32(t)),
            tx_pointer(t),
            small_u16(t),
        ),
        1 => Input::coin_predicate(
            utxo(t),
            Address::new(b32(t)),
            word(t),
            AssetId::new(b32(t)),
            tx_pointer(t),
            word(t),
            blob(t, payload),
            blob(t, payload),
        ),
        2 => Input::contract(
            utxo(t),
            bytes32(t),
            bytes32(t),
            tx_pointer(t),
            ContractId::new(b32(t)),
        ),
        3 => Input::message_coin_signed(
            Address::new(b32(t)),
            Address::new(b32(t)),
            word(t),
            Nonce::new(b32(t)),
            small_u16(t),
        ),
        4 => Input::message_data_signed(
            Address::new(b32(t)),
            Address::new(b32(t)),
            word(t),
            Nonce::new(b32(t)),
            small_u16(t),
            blob(t, payload),
        ),
        5 => Input::message_coin_predicate(
            Address::new(b32(t)),
            Address::new(b32(t)),
            word(t),
            Nonce::new(b32(t)),
            word(t),
            blob(t, payload),
            blob(t, payload),
        ),
        _ => Input::message_data_predicate(
            Address::new(b32(t)),
            Address::new(b32(t)),
            word(t),
            Nonce::new(b32(t)),
            word(t),
            blob(t, payload),
            blob(t, payload),
            blob(t, payload),
        ),
    }
}

fn one_output(t: &mut Tape) -> Output {
    match t.choose(5) {
        0 => Output::coin(Address::new(b32(t)), word(t), AssetId::new(b32(t))),
        1 => Output::change(Address::new(b32(t)), word(t), AssetId::new(b32(t))),
        2 => Output::variable(Address::new(b32(t)), word(t), AssetId::new(b32(t))),
        3 => Output::contract(small_u16(t), bytes32(t), bytes32(t)),
        _ => Output::contract_created(ContractId::new(b32(t)), bytes32(t)),
    }
}

fn io(t: &mut Tape, payload: usize) -> (Vec<Input>, Vec<Output>, Vec<Witness>) {
    let ni = t.small(4) as usize;
    let no = t.small(4) as usize;
    let nw = t.small(3) as usize;
    let inputs = (0..ni).map(|_| one_input(t, payload)).collect();
    let outputs = (0..no).map(|_| one_output(t)).collect();
    let witnesses = (0..nw).map(|_| Witness::from(blob(t, payload))).collect();
    (inputs, outputs, witnesses)
}

/// A transaction of any kind. `payload` bounds the variable-size byte fields, i.e. it controls
/// how large the encoding can become.
pub fn transaction(t: &mut Tape, payload: usize) -> Transaction {
    match t.choose(7) {
        0 => {
            // smallest: empty script
            Transaction::script(
                0,
                vec![],
                vec![],
                Policies::new(),
                vec![],
                vec![],
                vec![],
            )
            .into()
        }
        1 => {
            let (i, o, w) = io(t, payload);
            Transaction::script(
                word(t),
                blob(t, payload),
                blob(t, payload),
                policies(t),
                i,
                o,
                w,
            )
            .into()
        }
        2 => {
            let (i, o, w) = io(t, payload);
            let slots = (0..t.small(3))
                .map(|_| StorageSlot::new(bytes32(t), bytes32(t)))
                .collect();
            Transaction::create(small_u16(t), policies(t), Salt::new(b32(t)), slots, i, o, w)
                .into()
        }
        3 => Transaction::mint(
            tx_pointer(t),
            input::contract::Contract {
                utxo_id: utxo(t),
                balance_root: bytes32(t),
                state_root: bytes32(t),
                tx_pointer: tx_pointer(t),
                contract_id: ContractId::new(b32(t)),
            },
            output::contract::Contract {
                input_index: small_u16(t),
                balance_root: bytes32(t),
                state_root: bytes32(t),
            },
            word(t),
            AssetId::new(b32(t)),
            word(t),
        )
        .into(),
        4 => {
            let (i, o, w) = io(t, payload);
            let purpose = if t.coin() {
                UpgradePurpose::ConsensusParameters {
                    witness_index: small_u16(t),
                    checksum: bytes32(t),
                }
            } else {
                UpgradePurpose::StateTransition { root: bytes32(t) }
            };
            Transaction::upgrade(purpose, policies(t), i, o, w).into()
        }
        5 => {
            let (i, o, w) = io(t, payload);
            let body = UploadBody {
                root: bytes32(t),
                witness_index: small_u16(t),
                subsection_index: small_u16(t),
                subsections_number: small_u16(t),
                proof_set: (0..t.small(4)).map(|_| bytes32(t)).collect(),
            };
            Transaction::upload(body, policies(t), i, o, w).into()
        }
        _ => {
            let (i, o, w) = io(t, payload);
            let body = BlobBody {
                id: BlobId::new(b32(t)),
                witness_index: small_u16(t),
            };
            Transaction::blob(body, policies(t), i, o, w).into()
        }
    }
}

pub fn transactions(t: &mut Tape, max_txs: u64, payload: usize) -> Transactions {
    let n = t.small(max_txs);
    Transactions((0..n).map(|_| transaction(t, payload)).collect())
}

pub fn tx_id(t: &mut Tape) -> TxId {
    TxId::new(b32(t))
}

pub fn range(t: &mut Tape) -> std::ops::Range<u32> {
    let start = match t.choose(4) {
        0 => 0,
        1 => t.choose(20) as u32,
        2 => t.choose(1 << 32) as u32,
        _ => u32::MAX - t.choose(3) as u32,
    };
    let end = match t.choose(4) {
        0 => start,
        1 => start.saturating_add(t.choose(20) as u32),
        2 => t.choose(1 << 32) as u32,
        _ => u32::MAX - t.choose(3) as u32,
    };
    start..end
}

pub fn request(t: &mut Tape, max_ids: u64) -> RequestMessage {
    match t.choose(4) {
        0 => RequestMessage::TxPoolAllTransactionsIds,
        1 => RequestMessage::SealedHeaders(range(t)),
        2 => RequestMessage::Transactions(range(t)),
        _ => {
            let n = t.small(max_ids);
            RequestMessage::TxPoolFullTransactions((0..n).map(|_| tx_id(t)).collect())
        }
    }
}

pub fn error_code(t: &mut Tape) -> ResponseMessageErrorCode {
    match t.choose(4) {
        0 => ResponseMessageErrorCode::ProtocolV1EmptyResponse,
        1 => ResponseMessageErrorCode::RequestedRangeTooLarge,
        2 => ResponseMessageErrorCode::Timeout,
        _ => ResponseMessageErrorCode::SyncProcessorOutOfCapacity,
    }
}

/// A response message; `items` bounds list lengths and `payload` the byte fields.
pub fn response(t: &mut Tape, items: u64, payload: usize) -> V2ResponseMessage {
    let kind = t.choose(4);
    let err = t.chance(1, 5);
    match kind {
        0 => V2ResponseMessage::TxPoolAllTransactionsIds(if err {
            Err(error_code(t))
        } else {
            Ok((0..t.small(items)).map(|_| tx_id(t)).collect())
        }),
        1 => V2ResponseMessage::SealedHeaders(if err {
            Err(error_code(t))
        } else {
            let base = t.choose(1 << 32) as u32;
            Ok((0..t.small(items))
                .map(|i| sealed_header(t, base.wrapping_add(i as u32)))
                .collect())
        }),
        2 => V2ResponseMessage::Transactions(if err {
            Err(error_code(t))
        } else {
            Ok((0..t.small(items))
                .map(|_| transactions(t, 3, payload))
                .collect())
        }),
        _ => V2ResponseMessage::TxPoolFullTransactions(if err {
            Err(error_code(t))
        } else {
            Ok((0..t.small(items))
                .map(|_| {
                    if t.chance(1, 4) {
                        None
                    } else {
                        Some(pool_entry(t, payload))
                    }
                })
                .collect())
        }),
    }
}

/// An entry of a tx-pool response: usually a plain transaction; sometimes the sender-side form,
/// a checked pool transaction behind an `Arc`, which is serialized as its transaction and is
/// decoded as a plain transaction by the receiver.
pub fn pool_entry(t: &mut Tape, payload: usize) -> NetworkableTransactionPool {
    if t.chance(1, 5) {
        use fuel_core_types::{
            fuel_tx::{
                ConsensusParameters,
                Finalizable,
                TransactionBuilder,
            },
            fuel_vm::checked_transaction::IntoChecked,
            services::txpool::{
                Metadata,
                PoolTransaction,
            },
        };
        let script = TransactionBuilder::script(blob(t, payload), blob(t, payload))
            .max_fee_limit(0)
            .script_gas_limit(t.choose(1000))
            .add_fee_input()
            .finalize();
        if let Ok(checked) = script
            .into_checked_basic(BlockHeight::from(0u32), &ConsensusParameters::standard())
        {
            return NetworkableTransactionPool::PoolTransaction(std::sync::Arc::new(
                PoolTransaction::Script(checked, Metadata::new(0, 0, 0)),
            ));
        }
    }
    NetworkableTransactionPool::Transaction(transaction(t, payload))
}
