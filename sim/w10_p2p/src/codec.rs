//! C32 (c) — every generated request / response message through the REAL
//! `RequestResponseMessageHandler<PostcardCodec>` over simulated substreams: 1-byte reads, split
//! writes, spurious `Pending`, EOF in the middle of a frame, I/O errors in the middle of a frame
//! (read and write side), `Ok(0)` writes, frames larger than the configured maximum.
//!
//! Oracle: on healthy streams a message whose frame fits the limit arrives unchanged (over V1
//! an error code arrives as the V1 "empty response" code, by design of that protocol); a frame
//! above the limit is refused; a truncated or failed frame never yields a different message; a
//! failed write is reported as an error.

use crate::{
    payload,
    msg::{
        expected_after,
        has_pool_tx,
        has_unknown_code,
        req_desc,
        resp_desc,
        resp_eq,
    },
    stream::{
        Pace,
        ReadFault,
        Sink,
        Source,
        WriteFault,
    },
};
use fuel_core_p2p::{
    codecs::{
        postcard::PostcardCodec,
        request_response::RequestResponseMessageHandler,
    },
    request_response::{
        messages::{
            RequestMessage,
            ResponseMessageErrorCode,
            V2ResponseMessage,
        },
        protocols::RequestResponseProtocol,
    },
};
use libp2p::request_response::Codec;
use simkit::{
    Ctx,
    Tier,
};
use std::num::NonZeroU32;

const P: &str = "C32";

enum Msg {
    Req(RequestMessage),
    Resp(V2ResponseMessage),
}

#[derive(Debug)]
enum Fault {
    None,
    WriteError(usize),
    WriteZero(usize),
    /// the stream ends after this many bytes of the frame
    Truncate(usize),
    ReadError(usize),
}

pub fn run(ctx: &mut Ctx) {
    ctx.scope(P);
    let thorough = ctx.tier == Tier::Thorough;
    let max_size = *ctx
        .tape
        .pick(&[1024u32, 16, 64, 200, 4096, 65_536, 260 * 1024 * 1024]);
    let fault_pct = *ctx.tape.pick(&[0u64, 0, 25, 50]);
    let payload = *ctx.tape.pick(&[8usize, 0, 64, 600]);
    let items = *ctx.tape.pick(&[3u64, 1, 8, 40]);
    let steps = 4 + ctx.tape.choose(if thorough { 80 } else { 30 });
    ctx.ev(format!(
        "cfg codec max_size={max_size} faults={fault_pct}% payload<={payload} items<={items} steps={steps}"
    ));
    let run_max_size = max_size;

    for _ in 0..steps {
        if ctx.failed() {
            return;
        }
        let msg = if ctx.tape.chance(1, 3) {
            Msg::Req(payload::request(&mut ctx.tape, items * 4))
        } else {
            let mut m = payload::response(&mut ctx.tape, items, payload);
            if ctx.tape.chance(1, 25) {
                // the decode-only placeholder code: cannot be encoded over V2
                m = V2ResponseMessage::Transactions(Err(ResponseMessageErrorCode::Unknown));
            }
            Msg::Resp(m)
        };
        let proto = if ctx.tape.chance(1, 3) {
            RequestResponseProtocol::V1
        } else {
            RequestResponseProtocol::V2
        };
        let wpace = Pace::draw(&mut ctx.tape);
        let rpace = Pace::draw(&mut ctx.tape);
        // reference length of the frame (harness-side postcard call; used to place faults and to
        // classify the frame as within / above the limit)
        let ref_len = match &msg {
            Msg::Req(r) => postcard::to_allocvec(r).map(|v| v.len()).ok(),
            Msg::Resp(r) => match proto {
                RequestResponseProtocol::V2 => postcard::to_allocvec(r).map(|v| v.len()).ok(),
                RequestResponseProtocol::V1 => {
                    // same bytes as V2 of the V1-visible message, except errors become `None`
                    postcard::to_allocvec(&fuel_core_p2p::request_response::messages::V1ResponseMessage::from(r.clone()))
                        .map(|v| v.len())
                        .ok()
                }
            },
        };
        let flen = ref_len.unwrap_or(0);
        // the receiver's limit: the configured one, or placed right at the frame length
        let max_size = match (ctx.tape.choose(8), ref_len) {
            (4, Some(n)) => n as u32,
            (5, Some(n)) if n > 1 => n as u32 - 1,
            (6, Some(n)) => n as u32 + 1,
            (7, Some(n)) if n > 1 => (n as u32 / 2).max(1),
            _ => run_max_size,
        }
        .max(1);
        let mut handler: RequestResponseMessageHandler<PostcardCodec> =
            RequestResponseMessageHandler::new(NonZeroU32::new(max_size).unwrap());
        let fault = if fault_pct > 0 && ctx.tape.chance(fault_pct, 100) {
            let at = |ctx: &mut Ctx| match ctx.tape.choose(4) {
                0 => 0,
                1 => flen.saturating_sub(1),
                2 => flen / 2,
                _ => ctx.tape.choose(flen as u64 + 1) as usize,
            };
            match ctx.tape.choose(4) {
                0 => Fault::Truncate(at(ctx).min(flen.saturating_sub(1))),
                1 => Fault::ReadError(at(ctx)),
                2 => Fault::WriteError(at(ctx).min(flen.saturating_sub(1))),
                _ => Fault::WriteZero(at(ctx).min(flen.saturating_sub(1))),
            }
        } else {
            Fault::None
        };
        if matches!(&msg, Msg::Resp(r) if has_pool_tx(r)) {
            ctx.probe("pool_transaction_in_response");
        }
        let desc = match &msg {
            Msg::Req(r) => format!("request {}", req_desc(r)),
            Msg::Resp(r) => format!("response {}", resp_desc(r)),
        };
        ctx.op(format!(
            "send {desc} over {} frame={ref_len:?}B limit={max_size} fault={fault:?} write[{}] read[{}]",
            proto.as_ref(),
            wpace.desc(),
            rpace.desc()
        ));

        // ---- sender side: the real encoder into the simulated substream ----
        let wfault = match fault {
            Fault::WriteError(n) => WriteFault::ErrorAt(n),
            Fault::WriteZero(n) => WriteFault::ZeroAt(n),
            _ => WriteFault::None,
        };
        let mut sink = Sink::new(wpace, wfault);
        let wres = futures::executor::block_on(async {
            match &msg {
                Msg::Req(r) => handler.write_request(&proto, &mut sink, r.clone()).await,
                Msg::Resp(r) => handler.write_response(&proto, &mut sink, r.clone()).await,
            }
        });
        ctx.ev(format!(
            "  write -> ok={} bytes={} fault_fired={}",
            wres.is_ok(),
            sink.buf.len(),
            sink.fault_fired
        ));
        let unencodable = matches!(&msg, Msg::Resp(r) if has_unknown_code(r))
            && matches!(proto, RequestResponseProtocol::V2);
        if sink.fault_fired {
            ctx.fault(match fault {
                Fault::WriteError(_) => "write_error_mid_frame",
                _ => "write_zero_mid_frame",
            });
            if !ctx.check(P, "codec:failed-write-reported-as-success", wres.is_err(), || {
                format!(
                    "the substream failed after {} of {flen} bytes but the write returned Ok",
                    sink.buf.len()
                )
            }) {
                return;
            }
            // the receiver sees whatever was written, then the stream ends
        } else if unencodable && wres.is_err() {
            // refused by the encoder (by design of the placeholder code): nothing was sent
            ctx.probe("unknown_code_not_encodable");
            continue;
        } else {
            if !ctx.check(P, "codec:write-failed-without-fault", wres.is_ok(), || {
                format!("write failed on a healthy stream: {wres:?}")
            }) {
                return;
            }
            if ref_len != Some(sink.buf.len()) {
                // only used to place faults; not an oracle
                ctx.probe("frame_length_differs_from_reference_encoding");
            }
        }

        // ---- the substream between the two ----
        let mut wire = sink.buf;
        let full_len = wire.len();
        let mut damaged = sink.fault_fired && full_len < flen;
        let mut rfault = ReadFault::None;
        match fault {
            Fault::Truncate(n) if n < wire.len() => {
                wire.truncate(n);
                damaged = true;
                ctx.fault("eof_mid_frame");
            }
            Fault::ReadError(n) => {
                rfault = ReadFault::ErrorAt(n);
            }
            _ => {}
        }

        // ---- receiver side: the real decoder ----
        let mut src = Source::new(wire, rpace, rfault);
        enum Got {
            Req(std::io::Result<RequestMessage>),
            Resp(std::io::Result<V2ResponseMessage>),
        }
        let got = futures::executor::block_on(async {
            match &msg {
                Msg::Req(_) => Got::Req(handler.read_request(&proto, &mut src).await),
                Msg::Resp(_) => Got::Resp(handler.read_response(&proto, &mut src).await),
            }
        });
        if src.fault_fired {
            ctx.fault("read_error_mid_frame");
            damaged = true;
        }
        let (is_ok, same, got_desc) = match (&msg, &got) {
            (Msg::Req(sent), Got::Req(Ok(m))) => (true, m == sent, req_desc(m)),
            (Msg::Resp(sent), Got::Resp(Ok(m))) => {
                (true, resp_eq(m, &expected_after(&proto, sent)), resp_desc(m))
            }
            (_, Got::Req(Err(e))) | (_, Got::Resp(Err(e))) => (false, false, format!("error: {}", e.kind())),
            _ => unreachable!(),
        };
        ctx.ev(format!("  read -> {got_desc}"));
        let oversize = full_len as u64 > max_size as u64;
        if damaged {
            // truncated / failed frame: an error, never a different message
            if !is_ok {
                ctx.probe("damaged_frame_refused");
            }
            if !ctx.check(P, "codec:damaged-frame-yields-different-message", !is_ok || same, || {
                format!("sent {desc}, the frame was damaged ({fault:?}), the receiver decoded {got_desc}")
            }) {
                return;
            }
        } else if oversize {
            ctx.probe("oversize_frame");
            if !ctx.check(P, "codec:oversize-frame-accepted", !is_ok, || {
                format!("frame of {full_len} bytes accepted, limit {max_size}: {got_desc}")
            }) {
                return;
            }
        } else {
            if full_len as u64 == max_size as u64 {
                ctx.probe("frame_exactly_at_limit");
            }
            if !is_ok {
                ctx.check(P, "codec:message-within-limit-rejected", false, || {
                    format!("sent {desc} ({full_len} bytes, limit {max_size}): {got_desc}")
                });
                return;
            }
            if !ctx.check(P, "codec:message-changed-in-transit", same, || {
                format!("sent {desc} over {}, received {got_desc}", proto.as_ref())
            }) {
                return;
            }
        }
    }
}
