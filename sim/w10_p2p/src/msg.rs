//! Comparison and description of request/response messages (the response types have no
//! `PartialEq`), and what a response is expected to look like after a trip over protocol V1/V2.

use fuel_core_p2p::request_response::{
    messages::{
        RequestMessage,
        ResponseMessageErrorCode,
        V2ResponseMessage,
    },
    protocols::RequestResponseProtocol,
};
use fuel_core_types::{
    fuel_tx::Transaction,
    services::p2p::{
        NetworkableTransactionPool,
        Transactions,
    },
};

pub fn code_num(c: &ResponseMessageErrorCode) -> u8 {
    match c {
        ResponseMessageErrorCode::ProtocolV1EmptyResponse => 0,
        ResponseMessageErrorCode::RequestedRangeTooLarge => 1,
        ResponseMessageErrorCode::Timeout => 2,
        ResponseMessageErrorCode::SyncProcessorOutOfCapacity => 3,
        ResponseMessageErrorCode::Unknown => 255,
    }
}

pub fn txs_eq(a: &[Transactions], b: &[Transactions]) -> bool {
    a.len() == b.len() && a.iter().zip(b).all(|(x, y)| x.0 == y.0)
}

/// The transaction a pool entry stands for on the wire.
fn wire_tx(n: &NetworkableTransactionPool) -> Transaction {
    match n {
        NetworkableTransactionPool::Transaction(tx) => tx.clone(),
        NetworkableTransactionPool::PoolTransaction(p) => {
            use fuel_core_types::services::txpool::PoolTransaction as P;
            match p.as_ref() {
                P::Script(tx, _) => Transaction::Script(tx.transaction().clone()),
                P::Create(tx, _) => Transaction::Create(tx.transaction().clone()),
                P::Upgrade(tx, _) => Transaction::Upgrade(tx.transaction().clone()),
                P::Upload(tx, _) => Transaction::Upload(tx.transaction().clone()),
                P::Blob(tx, _) => Transaction::Blob(tx.transaction().clone()),
            }
        }
    }
}

pub fn pool_eq(
    a: &[Option<NetworkableTransactionPool>],
    b: &[Option<NetworkableTransactionPool>],
) -> bool {
    a.len() == b.len()
        && a.iter().zip(b).all(|(x, y)| match (x, y) {
            (None, None) => true,
            (Some(x), Some(y)) => wire_tx(x) == wire_tx(y),
            _ => false,
        })
}

fn res_eq<T>(
    a: &Result<T, ResponseMessageErrorCode>,
    b: &Result<T, ResponseMessageErrorCode>,
    eq: impl Fn(&T, &T) -> bool,
) -> bool {
    match (a, b) {
        (Ok(x), Ok(y)) => eq(x, y),
        (Err(x), Err(y)) => code_num(x) == code_num(y),
        _ => false,
    }
}

pub fn resp_eq(a: &V2ResponseMessage, b: &V2ResponseMessage) -> bool {
    use V2ResponseMessage as R;
    match (a, b) {
        (R::SealedHeaders(x), R::SealedHeaders(y)) => res_eq(x, y, |p, q| p == q),
        (R::Transactions(x), R::Transactions(y)) => res_eq(x, y, |p, q| txs_eq(p, q)),
        (R::TxPoolAllTransactionsIds(x), R::TxPoolAllTransactionsIds(y)) => {
            res_eq(x, y, |p, q| p == q)
        }
        (R::TxPoolFullTransactions(x), R::TxPoolFullTransactions(y)) => {
            res_eq(x, y, |p, q| pool_eq(p, q))
        }
        _ => false,
    }
}

fn res_desc<T>(r: &Result<Vec<T>, ResponseMessageErrorCode>) -> String {
    match r {
        Ok(v) => format!("Ok({} items)", v.len()),
        Err(c) => format!("Err(code {})", code_num(c)),
    }
}

pub fn resp_desc(m: &V2ResponseMessage) -> String {
    use V2ResponseMessage as R;
    match m {
        R::SealedHeaders(r) => format!("SealedHeaders {}", res_desc(r)),
        R::Transactions(r) => format!("Transactions {}", res_desc(r)),
        R::TxPoolAllTransactionsIds(r) => format!("TxPoolAllTransactionsIds {}", res_desc(r)),
        R::TxPoolFullTransactions(r) => format!("TxPoolFullTransactions {}", res_desc(r)),
    }
}

pub fn req_desc(m: &RequestMessage) -> String {
    match m {
        RequestMessage::SealedHeaders(r) => format!("SealedHeaders {}..{}", r.start, r.end),
        RequestMessage::Transactions(r) => format!("Transactions {}..{}", r.start, r.end),
        RequestMessage::TxPoolAllTransactionsIds => "TxPoolAllTransactionsIds".to_string(),
        RequestMessage::TxPoolFullTransactions(ids) => {
            format!("TxPoolFullTransactions {} ids", ids.len())
        }
    }
}

fn v1<T: Clone>(
    r: &Result<T, ResponseMessageErrorCode>,
) -> Result<T, ResponseMessageErrorCode> {
    match r {
        Ok(x) => Ok(x.clone()),
        // protocol V1 has no error codes: an error travels as "empty response"
        Err(_) => Err(ResponseMessageErrorCode::ProtocolV1EmptyResponse),
    }
}

/// What the receiver is expected to decode when `m` is sent over `protocol`.
pub fn expected_after(
    protocol: &RequestResponseProtocol,
    m: &V2ResponseMessage,
) -> V2ResponseMessage {
    use V2ResponseMessage as R;
    match protocol {
        RequestResponseProtocol::V2 => m.clone(),
        RequestResponseProtocol::V1 => match m {
            R::SealedHeaders(r) => R::SealedHeaders(v1(r)),
            R::Transactions(r) => R::Transactions(v1(r)),
            R::TxPoolAllTransactionsIds(r) => R::TxPoolAllTransactionsIds(v1(r)),
            R::TxPoolFullTransactions(r) => R::TxPoolFullTransactions(v1(r)),
        },
    }
}

/// True when the message contains the decode-only placeholder code, which cannot be encoded
/// over V2 by design (`serde(skip_serializing)`).
pub fn has_unknown_code(m: &V2ResponseMessage) -> bool {
    use V2ResponseMessage as R;
    let c = match m {
        R::SealedHeaders(Err(c))
        | R::Transactions(Err(c))
        | R::TxPoolAllTransactionsIds(Err(c))
        | R::TxPoolFullTransactions(Err(c)) => c,
        _ => return false,
    };
    code_num(c) == 255
}

/// True when the response carries a sender-side pool transaction (`Arc<PoolTransaction>`).
pub fn has_pool_tx(m: &V2ResponseMessage) -> bool {
    match m {
        V2ResponseMessage::TxPoolFullTransactions(Ok(v)) => v.iter().any(|x| {
            matches!(x, Some(NetworkableTransactionPool::PoolTransaction(_)))
        }),
        _ => false,
    }
}
