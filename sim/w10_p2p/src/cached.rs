//! C32 (a) — the real `CachedView` in front of the simulated database: request-range histories
//! over a chain that grows between requests, small cache capacities (eviction), stale views, and
//! injected storage read errors. Oracle: what is served equals what the database holds.

use crate::{
    chain::{
        self,
        SimDb,
        SimView,
    },
    msg::txs_eq,
};
use fuel_core_p2p::verif_api::VerifCachedView;
use simkit::{
    Ctx,
    Tier,
};
use std::ops::Range;

const P: &str = "C32";

pub fn run(ctx: &mut Ctx) {
    ctx.scope(P);
    let thorough = ctx.tier == Tier::Thorough;
    let capacity = *ctx.tape.pick(&[4usize, 1, 2, 3, 8, 16, 64, 1535]);
    let hash_seed = ctx.tape.choose(8);
    let fault_pct = *ctx.tape.pick(&[0u64, 0, 10, 30]);
    let stale_views = ctx.tape.chance(1, 4);
    let payload = *ctx.tape.pick(&[0usize, 8, 40]);
    let max_txs = ctx.tape.choose(3);
    let steps = 6 + ctx.tape.choose(if thorough { 150 } else { 50 });
    let db = SimDb::new();
    let initial = ctx.tape.small(12) as usize;
    db.append(&mut ctx.tape, initial, max_txs, payload);
    ctx.ev(format!(
        "cfg cached-view capacity={capacity} hash_seed={hash_seed} fault={fault_pct}% stale_views={stale_views} initial_chain={initial} steps={steps}"
    ));
    let cache = VerifCachedView::new_seeded(capacity, false, hash_seed);
    let mut prev: Range<u32> = 0..1;
    let mut old_view: Option<SimView> = None;
    // heights that were fetched from the database at least once (for probes only)
    let mut fetched: std::collections::BTreeSet<(char, u32)> = Default::default();

    for _ in 0..steps {
        if ctx.failed() {
            return;
        }
        match ctx.tape.weighted(&[66, 22, 12]) {
            // ---- the chain grows ----
            1 => {
                let n = 1 + ctx.tape.small(4) as usize;
                db.append(&mut ctx.tape, n, max_txs, payload);
                ctx.ev(format!("chain grows by {n} to {}", db.len()));
                ctx.sim_ms += 1000 * n as u64;
            }
            // ---- somebody keeps a view for later (a slow reader) ----
            2 => {
                old_view = Some(db.view());
                ctx.ev(format!("view kept at chain length {}", db.len()));
            }
            // ---- a request ----
            _ => {
                let len = db.len() as u32;
                let use_stale = stale_views && old_view.is_some() && ctx.tape.chance(1, 2);
                let range = if use_stale && ctx.tape.coin() {
                    // a slow reader asks for what a fast reader just fetched
                    prev.clone()
                } else {
                    chain::draw_range(&mut ctx.tape, len, &prev, 8)
                };
                prev = range.clone();
                let headers = ctx.tape.coin();
                let view = if use_stale {
                    old_view.take().unwrap()
                } else {
                    db.view()
                };
                let inject = fault_pct > 0 && ctx.tape.chance(fault_pct, 100);
                if inject {
                    let nth = ctx.tape.small(6) as u32;
                    db.arm_fault(nth);
                }
                ctx.op(format!(
                    "get {} {}..{} view_len={} chain_len={len} stale={use_stale} inject={inject}",
                    if headers { "headers" } else { "transactions" },
                    range.start,
                    range.end,
                    view.len
                ));
                // ---- the real code ----
                let (outcome, ok) = if headers {
                    let r = cache.get_sealed_headers(&view, range.clone());
                    let fired = db.disarm();
                    let direct_view = db.direct_headers(view.len, &range);
                    let direct_now = db.direct_headers(db.len(), &range);
                    judge(ctx, &r, fired, use_stale, direct_view, direct_now, |a, b| a == b)
                } else {
                    let r = cache.get_transactions(&view, range.clone());
                    let fired = db.disarm();
                    let direct_view = db.direct_txs(view.len, &range);
                    let direct_now = db.direct_txs(db.len(), &range);
                    judge(ctx, &r, fired, use_stale, direct_view, direct_now, |a, b| {
                        txs_eq(a, b)
                    })
                };
                // what reached the database (deterministic: the cache hasher is seeded)
                let calls = db.drain_calls();
                if calls.is_empty() && outcome == "some" && range.start < range.end {
                    ctx.probe("served_entirely_from_cache");
                }
                for (w, s, e, o) in &calls {
                    if *s > range.start {
                        ctx.probe("cached_prefix_plus_db_suffix");
                    }
                    if *o == "some" {
                        for h in *s..*e {
                            if !fetched.insert((*w, h)) {
                                ctx.probe("refetched_after_eviction");
                            }
                        }
                    }
                    ctx.ev(format!("  db {w} {s}..{e} -> {o}"));
                }
                ctx.ev(format!("  -> {outcome}"));
                if !ok {
                    return;
                }
            }
        }
    }
}

/// Compare the served result with what the database holds. Returns (outcome label, ok).
fn judge<T>(
    ctx: &mut Ctx,
    r: &fuel_core_storage::Result<Option<Vec<T>>>,
    fault_fired: bool,
    stale: bool,
    direct_view: Option<Vec<T>>,
    direct_now: Option<Vec<T>>,
    eq: impl Fn(&[T], &[T]) -> bool,
) -> (&'static str, bool) {
    if fault_fired {
        ctx.fault("db_read_error");
    }
    match r {
        Err(e) => {
            let ok = ctx.check(P, "cached-view:error-without-db-error", fault_fired, || {
                format!("CachedView failed although the database did not: {e:?}")
            });
            ("error", ok)
        }
        Ok(None) => {
            if fault_fired {
                // an injected error may surface as "nothing", never as wrong data
                return ("none", true);
            }
            let ok = ctx.check(
                P,
                "cached-view:none-although-db-holds-range",
                direct_view.is_none(),
                || {
                    format!(
                        "CachedView returned None, the database view holds all {} items of the range",
                        direct_view.as_ref().map(|v| v.len()).unwrap_or(0)
                    )
                },
            );
            ("none", ok)
        }
        Ok(Some(items)) => {
            // a stale view may be served blocks that were appended after the view was taken
            // (they are cached by later requests); they are still what the database holds.
            let reference = match (&direct_view, stale) {
                (Some(v), _) => Some(v),
                (None, true) => {
                    if direct_now.is_some() {
                        ctx.probe("stale_view_served_newer_blocks");
                    }
                    direct_now.as_ref()
                }
                (None, false) => None,
            };
            match reference {
                None => {
                    let ok = ctx.check(P, "cached-view:served-range-db-does-not-hold", false, || {
                        format!(
                            "CachedView returned {} items for a range the database does not hold completely",
                            items.len()
                        )
                    });
                    ("some", ok)
                }
                Some(want) => {
                    let ok = ctx.check(
                        P,
                        "cached-view:served-differs-from-db",
                        eq(items, want),
                        || {
                            format!(
                                "CachedView returned {} items, the database holds {} for the range (or contents differ)",
                                items.len(),
                                want.len()
                            )
                        },
                    );
                    ("some", ok)
                }
            }
        }
    }
}
