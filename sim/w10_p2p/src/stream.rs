//! Simulated byte streams (`futures::AsyncRead` / `AsyncWrite`) with short reads and writes,
//! spurious `Pending`, and injected faults. The plan of a stream is drawn from the tape before
//! the codec runs (the codec polls the stream; the tape is not reachable from inside `poll_*`).

use futures::io::{
    AsyncRead,
    AsyncWrite,
};
use simkit::Tape;
use std::{
    io,
    pin::Pin,
    task::{
        Context,
        Poll,
    },
};

#[derive(Clone, Debug)]
pub struct Pace {
    /// Sizes of successive transfers (cycled). Empty => unlimited.
    pub chunks: Vec<usize>,
    /// Every `pending_every`-th poll returns `Pending` first (0 => never).
    pub pending_every: u32,
}

impl Pace {
    pub fn draw(t: &mut Tape) -> Self {
        let chunks = match t.choose(5) {
            0 => vec![],
            1 => vec![1],
            2 => vec![1 + t.choose(7) as usize],
            3 => (0..1 + t.choose(3))
                .map(|_| 1 + t.choose(16) as usize)
                .collect(),
            _ => vec![1, 1 + t.choose(64) as usize, 2],
        };
        let pending_every = match t.choose(4) {
            0 => 0,
            1 => 1,
            2 => 2,
            _ => 2 + t.choose(5) as u32,
        };
        Pace {
            chunks,
            pending_every,
        }
    }
    pub fn desc(&self) -> String {
        format!("chunks={:?} pending_every={}", self.chunks, self.pending_every)
    }
}

struct Pacer {
    pace: Pace,
    polls: u32,
    transfers: usize,
    just_pended: bool,
}

impl Pacer {
    fn new(pace: Pace) -> Self {
        Pacer {
            pace,
            polls: 0,
            transfers: 0,
            just_pended: false,
        }
    }
    /// True => this poll must return Pending (the waker is woken immediately).
    fn pend(&mut self, cx: &mut Context<'_>) -> bool {
        if self.just_pended {
            self.just_pended = false;
            return false;
        }
        self.polls += 1;
        if self.pace.pending_every > 0 && self.polls % self.pace.pending_every == 0 {
            self.just_pended = true;
            cx.waker().wake_by_ref();
            return true;
        }
        false
    }
    fn next_chunk(&mut self) -> usize {
        if self.pace.chunks.is_empty() {
            return usize::MAX;
        }
        let c = self.pace.chunks[self.transfers % self.pace.chunks.len()];
        self.transfers += 1;
        c.max(1)
    }
}

#[derive(Clone, Debug, PartialEq, Eq)]
pub enum WriteFault {
    None,
    /// `poll_write` fails once `n` bytes were accepted.
    ErrorAt(usize),
    /// `poll_write` returns `Ok(0)` once `n` bytes were accepted.
    ZeroAt(usize),
}

/// The sending side of a substream: collects what was written.
pub struct Sink {
    pub buf: Vec<u8>,
    pub fault: WriteFault,
    pub fault_fired: bool,
    pub closed: bool,
    pacer: Pacer,
}

impl Sink {
    pub fn new(pace: Pace, fault: WriteFault) -> Self {
        Sink {
            buf: Vec::new(),
            fault,
            fault_fired: false,
            closed: false,
            pacer: Pacer::new(pace),
        }
    }
}

impl AsyncWrite for Sink {
    fn poll_write(
        mut self: Pin<&mut Self>,
        cx: &mut Context<'_>,
        data: &[u8],
    ) -> Poll<io::Result<usize>> {
        let this = &mut *self;
        if this.pacer.pend(cx) {
            return Poll::Pending;
        }
        let mut room = usize::MAX;
        match this.fault {
            WriteFault::ErrorAt(n) => {
                if this.buf.len() >= n {
                    this.fault_fired = true;
                    return Poll::Ready(Err(io::Error::new(
                        io::ErrorKind::BrokenPipe,
                        "injected write error",
                    )));
                }
                room = n - this.buf.len();
            }
            WriteFault::ZeroAt(n) => {
                if this.buf.len() >= n {
                    this.fault_fired = true;
                    return Poll::Ready(Ok(0));
                }
                room = n - this.buf.len();
            }
            WriteFault::None => {}
        }
        if data.is_empty() {
            return Poll::Ready(Ok(0));
        }
        let n = data.len().min(this.pacer.next_chunk()).min(room);
        this.buf.extend_from_slice(&data[..n]);
        Poll::Ready(Ok(n))
    }

    fn poll_flush(self: Pin<&mut Self>, _: &mut Context<'_>) -> Poll<io::Result<()>> {
        Poll::Ready(Ok(()))
    }

    fn poll_close(mut self: Pin<&mut Self>, _: &mut Context<'_>) -> Poll<io::Result<()>> {
        self.closed = true;
        Poll::Ready(Ok(()))
    }
}

#[derive(Clone, Debug, PartialEq, Eq)]
pub enum ReadFault {
    None,
    /// The stream fails once `n` bytes were delivered.
    ErrorAt(usize),
}

/// The receiving side of a substream: delivers `data`, then EOF.
pub struct Source {
    data: Vec<u8>,
    pub pos: usize,
    pub fault: ReadFault,
    pub fault_fired: bool,
    pacer: Pacer,
}

impl Source {
    pub fn new(data: Vec<u8>, pace: Pace, fault: ReadFault) -> Self {
        Source {
            data,
            pos: 0,
            fault,
            fault_fired: false,
            pacer: Pacer::new(pace),
        }
    }
}

impl AsyncRead for Source {
    fn poll_read(
        mut self: Pin<&mut Self>,
        cx: &mut Context<'_>,
        out: &mut [u8],
    ) -> Poll<io::Result<usize>> {
        let this = &mut *self;
        if this.pacer.pend(cx) {
            return Poll::Pending;
        }
        let mut room = usize::MAX;
        if let ReadFault::ErrorAt(n) = this.fault {
            if this.pos >= n {
                this.fault_fired = true;
                return Poll::Ready(Err(io::Error::new(
                    io::ErrorKind::ConnectionReset,
                    "injected read error",
                )));
            }
            room = n - this.pos;
        }
        let left = this.data.len() - this.pos;
        let n = out.len().min(left).min(this.pacer.next_chunk()).min(room);
        out[..n].copy_from_slice(&this.data[this.pos..this.pos + n]);
        this.pos += n;
        Poll::Ready(Ok(n))
    }
}
