//! height mode (C09) — `Database<Description>` for the on-chain, off-chain, relayer, gas-price
//! and compression descriptions over a fault-injecting `TransactableStorage` (in-memory store
//! or a real RocksDB directory that is reopened at tape-chosen points). Generated commits carry
//! no / the next / the same / a skipped / an older / two heights. Model: `Option<height>`.

use fuel_core::{
    database::{
        Database,
        database_description::{
            DatabaseDescription,
            DatabaseHeight,
            compression::CompressionDatabase,
            gas_price::GasPriceDatabase,
            off_chain::OffChain,
            on_chain::OnChain,
            relayer::Relayer,
        },
    },
    state::{
        IterableKeyValueView,
        KeyValueView,
        TransactableStorage,
        historical_rocksdb::{
            HistoricalRocksDB,
            StateRewindPolicy,
        },
        in_memory::memory_store::MemoryStore,
        rocks_db::DatabaseConfig,
    },
};
use fuel_core_storage::{
    Error as StorageError,
    Result as StorageResult,
    iter::{
        BoxedIter,
        IterDirection,
        IterableStore,
    },
    kv_store::{
        KVItem,
        KeyItem,
        KeyValueInspect,
        StorageColumn,
        Value,
        WriteOperation,
    },
    transactional::{
        Changes,
        HistoricalView,
        Modifiable,
        StorageChanges,
    },
};
use simkit::Ctx;
use std::{
    num::NonZeroU64,
    sync::{
        Arc,
        atomic::{
            AtomicU8,
            Ordering,
        },
    },
};

/// Fault-injecting storage seam.
#[derive(Debug)]
struct FaultyStore<D: DatabaseDescription> {
    inner: Arc<dyn TransactableStorage<D::Height, Column = D::Column>>,
    /// 0 none, 1 fail before apply, 2 apply then report an error (lost ack)
    commit_fault: Arc<AtomicU8>,
}

impl<D: DatabaseDescription> KeyValueInspect for FaultyStore<D> {
    type Column = D::Column;
    fn get(&self, key: &[u8], column: Self::Column) -> StorageResult<Option<Value>> {
        self.inner.get(key, column)
    }
}

impl<D: DatabaseDescription> IterableStore for FaultyStore<D> {
    fn iter_store(
        &self,
        column: Self::Column,
        prefix: Option<&[u8]>,
        start: Option<&[u8]>,
        direction: IterDirection,
    ) -> BoxedIter<'_, KVItem> {
        self.inner.iter_store(column, prefix, start, direction)
    }
    fn iter_store_keys(
        &self,
        column: Self::Column,
        prefix: Option<&[u8]>,
        start: Option<&[u8]>,
        direction: IterDirection,
    ) -> BoxedIter<'_, KeyItem> {
        self.inner.iter_store_keys(column, prefix, start, direction)
    }
}

impl<D: DatabaseDescription> TransactableStorage<D::Height> for FaultyStore<D> {
    fn commit_changes(
        &self,
        height: Option<D::Height>,
        changes: StorageChanges,
    ) -> StorageResult<()> {
        match self.commit_fault.swap(0, Ordering::SeqCst) {
            1 => Err(StorageError::Other(anyhow::anyhow!("injected commit error (nothing written)"))),
            2 => {
                self.inner.commit_changes(height, changes)?;
                Err(StorageError::Other(anyhow::anyhow!("injected commit error (lost ack)")))
            }
            _ => self.inner.commit_changes(height, changes),
        }
    }
    fn view_at_height(
        &self,
        height: &D::Height,
    ) -> StorageResult<KeyValueView<Self::Column, D::Height>> {
        self.inner.view_at_height(height)
    }
    fn latest_view(&self) -> StorageResult<IterableKeyValueView<Self::Column, D::Height>> {
        self.inner.latest_view()
    }
    fn rollback_block_to(&self, height: &D::Height) -> StorageResult<()> {
        self.inner.rollback_block_to(height)
    }
}

struct Spec<D: DatabaseDescription> {
    name: &'static str,
    table: &'static str,
    key: fn(u64, u64) -> Vec<u8>,
    value: fn(u64, u64) -> Vec<u8>,
    h: fn(u64) -> D::Height,
    max_height: u64,
}

fn be4(h: u64, _salt: u64) -> Vec<u8> {
    (h as u32).to_be_bytes().to_vec()
}
fn be8(h: u64, _salt: u64) -> Vec<u8> {
    h.to_be_bytes().to_vec()
}
fn junk(h: u64, salt: u64) -> Vec<u8> {
    format!("value-{h}-{salt}").into_bytes()
}
fn block_id(h: u64, salt: u64) -> Vec<u8> {
    let mut v = vec![0u8; 32];
    v[..8].copy_from_slice(&h.to_be_bytes());
    v[8..16].copy_from_slice(&salt.to_be_bytes());
    v
}

pub fn run(ctx: &mut Ctx) {
    match ctx.tape.below(5) {
        0 => run_desc::<OnChain>(
            ctx,
            Spec { name: "on_chain", table: "FuelBlocks", key: be4, value: junk, h: |h| (h as u32).into(), max_height: u32::MAX as u64 },
        ),
        1 => run_desc::<OffChain>(
            ctx,
            Spec { name: "off_chain", table: "FuelBlockIdsToHeights", key: block_id, value: be4, h: |h| (h as u32).into(), max_height: u32::MAX as u64 },
        ),
        2 => run_desc::<Relayer>(
            ctx,
            Spec { name: "relayer", table: "History", key: be8, value: |_h, _s| vec![0u8], h: |h| h.into(), max_height: u64::MAX },
        ),
        3 => run_desc::<GasPriceDatabase>(
            ctx,
            Spec { name: "gas_price", table: "State", key: be4, value: junk, h: |h| (h as u32).into(), max_height: u32::MAX as u64 },
        ),
        _ => run_desc::<CompressionDatabase>(
            ctx,
            Spec { name: "compression", table: "CompressedBlocks", key: be4, value: junk, h: |h| (h as u32).into(), max_height: u32::MAX as u64 },
        ),
    }
}

enum Disk<D: DatabaseDescription> {
    Mem(Arc<MemoryStore<D>>),
    Rocks { dir: tempfile::TempDir, policy: StateRewindPolicy },
}

fn open<D>(disk: &Disk<D>, fault: &Arc<AtomicU8>) -> Database<D>
where
    D: DatabaseDescription,
    Database<D>: fuel_core_storage::StorageInspect<
            fuel_core::database::metadata::MetadataTable<D>,
            Error = StorageError,
        >,
{
    let inner: Arc<dyn TransactableStorage<D::Height, Column = D::Column>> = match disk {
        Disk::Mem(m) => m.clone(),
        Disk::Rocks { dir, policy } => Arc::new(
            HistoricalRocksDB::<D>::default_open(dir.path(), *policy, DatabaseConfig::config_for_tests())
                .expect("open rocksdb"),
        ),
    };
    Database::<D>::new(Arc::new(FaultyStore::<D> {
        inner,
        commit_fault: fault.clone(),
    }))
}

fn run_desc<D>(ctx: &mut Ctx, spec: Spec<D>)
where
    D: DatabaseDescription,
    Database<D>: Modifiable
        + fuel_core_storage::StorageInspect<
            fuel_core::database::metadata::MetadataTable<D>,
            Error = StorageError,
        >,
{
    let col = enum_iterator::all::<D::Column>()
        .find(|c: &D::Column| c.name() == spec.table)
        .unwrap_or_else(|| panic!("harness: no column {} in {}", spec.table, spec.name));
    let other_col = enum_iterator::all::<D::Column>()
        .find(|c: &D::Column| c.name() != spec.table && c.id() != D::metadata_column().id());
    let fault = Arc::new(AtomicU8::new(0));
    let use_rocks = ctx.tape.chance(1, 5);
    let disk: Disk<D> = if use_rocks {
        let policy = match ctx.tape.below(3) {
            0 => StateRewindPolicy::NoRewind,
            1 => StateRewindPolicy::RewindFullRange,
            _ => StateRewindPolicy::RewindRange { size: NonZeroU64::new(2).unwrap() },
        };
        Disk::Rocks { dir: tempfile::TempDir::new().expect("tempdir"), policy }
    } else {
        Disk::Mem(Arc::new(MemoryStore::<D>::default()))
    };
    let fault_pct = *ctx.tape.pick(&[0u64, 0, 5, 15]);
    ctx.ev(format!(
        "db={} backend={} faults={fault_pct}%",
        spec.name,
        match &disk {
            Disk::Mem(_) => "memory".to_string(),
            Disk::Rocks { policy, .. } => format!("rocksdb {policy:?}"),
        }
    ));
    let mut db = Some(open(&disk, &fault));
    let mut model: Option<u64> = None;
    let mut base_height: Option<u64> = None;
    let mut committed_keys: std::collections::BTreeSet<Vec<u8>> = Default::default();
    let mut salt = 0u64;
    let first = match ctx.tape.below(4) {
        0 => 0,
        1 => 1,
        2 => ctx.tape.choose(1000),
        _ => spec.max_height - ctx.tape.choose(3), // at the edge of the height type
    };
    let steps = 6 + ctx.tape.below(40);
    for _ in 0..steps {
        if ctx.failed() {
            return;
        }
        let kind = ctx.tape.weighted(&[70, 12, 10]);
        match kind {
            0 => {
                // which heights does this commit carry?
                let next = model.map(|m| m.checked_add(1)).unwrap_or(Some(first));
                let shape = ctx.tape.weighted(&[10, 3, 2, 2, 2, 2]);
                let heights: Vec<u64> = match (shape, model, next) {
                    (0, _, Some(n)) if n <= spec.max_height => vec![n],
                    (0, _, _) => vec![],
                    (1, _, _) => vec![],
                    (2, Some(m), _) => vec![m], // same height again
                    (3, Some(m), _) => match m.checked_add(2 + ctx.tape.choose(3)) { Some(x) if x <= spec.max_height => vec![x], _ => vec![] },
                    (4, Some(m), _) if m > 0 => vec![m - 1 - ctx.tape.choose(m.min(3))],
                    (5, _, Some(n)) if n < spec.max_height => vec![n, n + 1],
                    (_, None, _) => vec![first.saturating_add(ctx.tape.choose(3)).min(spec.max_height)],
                    _ => vec![],
                };
                salt += 1;
                let mut changes = Changes::default();
                for h in &heights {
                    changes
                        .entry(col.id())
                        .or_default()
                        .insert((spec.key)(*h, salt).into(), WriteOperation::Insert((spec.value)(*h, salt).into()));
                }
                // unrelated data rides along
                if let Some(other_col) = other_col.filter(|_| ctx.tape.coin()) {
                    changes
                        .entry(other_col.id())
                        .or_default()
                        .insert(format!("k{salt}").into_bytes().into(), WriteOperation::Insert(b"x".to_vec().into()));
                }
                let expect_ok = match (model, heights.as_slice()) {
                    (None, []) => true,
                    (None, [_]) => true,
                    (Some(m), [n]) => m.checked_add(1) == Some(*n),
                    (Some(_), []) => false,
                    _ => false, // two heights
                };
                let inject = if fault_pct > 0 && ctx.tape.chance(fault_pct, 100) {
                    1 + ctx.tape.below(2) as u8
                } else {
                    0
                };
                ctx.op(format!(
                    "commit heights={heights:?} model={model:?} expect_ok={expect_ok} inject={inject}"
                ));
                fault.store(inject, Ordering::SeqCst);
                let d = db.as_mut().unwrap();
                let new_keys: Vec<Vec<u8>> = heights.iter().map(|h| (spec.key)(*h, salt)).collect();
                let res = Modifiable::commit_changes(d, changes);
                let fired = inject != 0 && fault.swap(0, Ordering::SeqCst) == 0;
                if fired {
                    ctx.fault(if inject == 1 { "commit_error_before_apply" } else { "commit_lost_ack" });
                }
                match (&res, fired) {
                    (Ok(()), false) => {
                        ctx.check("C09", "unlinked-commit-accepted", expect_ok, || {
                            format!("{}: commit with heights {heights:?} accepted at latest height {model:?}", spec.name)
                        });
                        if !expect_ok {
                            return;
                        }
                        if let [n] = heights.as_slice() {
                            model = Some(*n);
                            base_height.get_or_insert(*n);
                        }
                        committed_keys.extend(new_keys);
                    }
                    (Ok(()), true) => {
                        ctx.check("C09", "injected-commit-error-swallowed", false, || {
                            "storage commit failed but Database::commit_changes returned Ok".to_string()
                        });
                    }
                    (Err(e), false) => {
                        ctx.check("C09", "linked-commit-rejected", !expect_ok, || {
                            format!("{}: valid commit with heights {heights:?} at {model:?} rejected: {e}", spec.name)
                        });
                        // a rejected commit leaves no data behind
                        for k in &new_keys {
                            if !committed_keys.contains(k) {
                                let ex = d.exists(k, col).unwrap_or(true);
                                ctx.check("C09", "rejected-commit-left-data", !ex, || {
                                    format!("{}: key of the rejected commit is present", spec.name)
                                });
                            }
                        }
                    }
                    (Err(_), true) => {
                        if inject == 2 && expect_ok {
                            // lost ack: the data is durable but the caller saw an error. The
                            // node treats a failed commit as fatal: crash and reopen now.
                            ctx.probe("lost_ack_then_restart");
                            db = None;
                            let d2 = open(&disk, &fault);
                            let got = d2.latest_height().map(|h| h.as_u64());
                            let durable = if let [n] = heights.as_slice() { Some(*n) } else { model };
                            ctx.check("C09", "height-after-lost-ack-reopen", got == durable || got == model, || {
                                format!("{}: after lost-ack + reopen height {got:?}, expected {durable:?} (or {model:?})", spec.name)
                            });
                            model = got;
                            if let Some(g) = got {
                                base_height.get_or_insert(g);
                            }
                            committed_keys.extend(new_keys);
                            db = Some(d2);
                        }
                        // inject == 1: nothing was written, model unchanged
                    }
                }
            }
            1 => {
                // reopen (crash/restart): only durable state survives
                ctx.op("reopen");
                ctx.fault("restart");
                db = None;
                db = Some(open(&disk, &fault));
            }
            _ => {
                // rollback of the last block (never of the first height of the database)
                if model.is_some() && model == base_height {
                    continue;
                }
                let d = db.as_ref().unwrap();
                let before = d.latest_height().map(|h| h.as_u64());
                let r = d.rollback_last_block();
                ctx.op(format!("rollback_last_block at {before:?} -> {}", r.is_ok()));
                match r {
                    Ok(()) => {
                        ctx.probe("rollback_ok");
                        let expected = model.and_then(|m| (spec.h)(m).rollback_height().map(|h| h.as_u64()));
                        ctx.check("C09", "rollback-without-height", model.is_some(), || "rollback succeeded on a database without height".into());
                        model = expected;
                    }
                    Err(_) => {
                        // no history / no height: nothing changes
                    }
                }
            }
        }
        // ---- the reported height is exact ----
        let d = db.as_ref().unwrap();
        let got = d.latest_height().map(|h| h.as_u64());
        ctx.check("C09", "reported-height-wrong", got == model, || {
            format!("{}: latest_height() = {got:?}, last successfully committed height = {model:?}", spec.name)
        });
        let meta = d.latest_height_from_metadata().map(|h| h.map(|h| h.as_u64()));
        // after a rollback the metadata table is restored by the history itself
        ctx.check("C09", "metadata-height-wrong", matches!(&meta, Ok(m) if *m == model), || {
            format!("{}: metadata height {meta:?}, model {model:?}", spec.name)
        });
    }
}
