//! tx mode (C10) — a stack of nested `StorageTransaction`s (depth <= 3) over a fault-injecting
//! base store, driven by tape-generated operations and compared with a stack-of-maps model.
//!
//! Real code under test: `InMemoryTransaction` / `StructuredStorage` (`KeyValueInspect`,
//! `KeyValueMutate`, `BatchOperations`, `Modifiable`, `commit`, `into_inner`), plus the default
//! method bodies of `KeyValueInspect`/`KeyValueMutate` used by the base store.
//! Faults: base read errors (n-th read after arming), base commit error (before apply).

use fuel_core_storage::{
    Error as StorageError,
    Result as StorageResult,
    column::Column,
    kv_store::{
        BatchOperations,
        KeyValueInspect,
        KeyValueMutate,
        StorageColumn,
        Value,
        WriteOperation,
    },
    transactional::{
        Changes,
        ConflictPolicy,
        Modifiable,
        StorageTransaction,
    },
};
use fuel_core_storage::StorageReadError;
use simkit::Ctx;
use std::{
    cell::Cell,
    collections::{
        BTreeMap,
        BTreeSet,
    },
    rc::Rc,
};

type K = (u32, Vec<u8>);

#[derive(Clone)]
struct Faults {
    fail_next_read: Rc<Cell<bool>>,
    fail_next_commit: Rc<Cell<bool>>,
    reads: Rc<Cell<u64>>,
}

struct Base {
    map: BTreeMap<K, Vec<u8>>,
    f: Faults,
}

impl KeyValueInspect for Base {
    type Column = Column;
    fn get(&self, key: &[u8], column: Column) -> StorageResult<Option<Value>> {
        self.f.reads.set(self.f.reads.get() + 1);
        if self.f.fail_next_read.replace(false) {
            return Err(StorageError::Other(anyhow::anyhow!("injected read error")));
        }
        Ok(self
            .map
            .get(&(column.id(), key.to_vec()))
            .map(|v| Value::from(v.as_slice())))
    }
}

impl Modifiable for Base {
    fn commit_changes(&mut self, changes: Changes) -> StorageResult<()> {
        if self.f.fail_next_commit.replace(false) {
            return Err(StorageError::Other(anyhow::anyhow!("injected commit error")));
        }
        for (c, ops) in changes {
            for (k, op) in ops {
                let k: Vec<u8> = k.into();
                match op {
                    WriteOperation::Insert(v) => {
                        self.map.insert((c, k), v.to_vec());
                    }
                    WriteOperation::Remove => {
                        self.map.remove(&(c, k));
                    }
                }
            }
        }
        Ok(())
    }
}

type T1 = StorageTransaction<Base>;
type T2 = StorageTransaction<T1>;
type T3 = StorageTransaction<T2>;

enum Stack {
    L0(Base),
    L1(T1),
    L2(T2),
    L3(T3),
    Gone,
}

macro_rules! with_top {
    ($stack:expr, $t:ident => $body:expr, $base:ident => $bbody:expr) => {
        match $stack {
            Stack::L1($t) => $body,
            Stack::L2($t) => $body,
            Stack::L3($t) => $body,
            Stack::L0($base) => $bbody,
            Stack::Gone => unreachable!(),
        }
    };
}

#[derive(Default, Clone)]
struct Level {
    /// pending writes of this level: Some(v) insert, None removal
    changes: BTreeMap<K, Option<Vec<u8>>>,
    /// keys whose pending state in this level is uncertain after an injected error inside
    /// replace/take (the statement does not say whether the write took effect)
    tainted: BTreeSet<K>,
    policy_fail: bool,
}

struct Model {
    base: BTreeMap<K, Vec<u8>>,
    levels: Vec<Level>,
}

impl Model {
    fn get(&self, k: &K) -> Option<Vec<u8>> {
        for l in self.levels.iter().rev() {
            if let Some(v) = l.changes.get(k) {
                return v.clone();
            }
        }
        self.base.get(k).cloned()
    }
    fn is_tainted(&self, k: &K) -> bool {
        for l in self.levels.iter().rev() {
            if l.changes.contains_key(k) {
                return false;
            }
            if l.tainted.contains(k) {
                return true;
            }
        }
        false
    }
    /// true when the read of `k` certainly goes to the base store
    fn reaches_base(&self, k: &K) -> bool {
        !self
            .levels
            .iter()
            .any(|l| l.changes.contains_key(k) || l.tainted.contains(k))
    }
    fn certainly_pending(&self, k: &K) -> bool {
        for l in self.levels.iter().rev() {
            if l.changes.contains_key(k) {
                return true;
            }
            if l.tainted.contains(k) {
                return false;
            }
        }
        false
    }
    fn set(&mut self, k: K, v: Option<Vec<u8>>) {
        let top = self.levels.last_mut().unwrap();
        top.tainted.remove(&k);
        top.changes.insert(k, v);
    }
    fn taint(&mut self, k: K) {
        let top = self.levels.last_mut().unwrap();
        top.changes.remove(&k);
        top.tainted.insert(k);
    }
}

fn hx(b: &[u8]) -> String {
    b.iter().map(|x| format!("{x:02x}")).collect::<String>()
}

pub fn run(ctx: &mut Ctx) {
    let cols = [Column::Coins, Column::Messages];
    let f = Faults {
        fail_next_read: Rc::new(Cell::new(false)),
        fail_next_commit: Rc::new(Cell::new(false)),
        reads: Rc::new(Cell::new(0)),
    };
    let fault_pct = *ctx.tape.pick(&[0u64, 0, 3, 10]);
    // initial base content
    let mut model = Model {
        base: BTreeMap::new(),
        levels: vec![],
    };
    let mut vc = 0u32;
    let n0 = ctx.tape.small(5);
    for _ in 0..n0 {
        let k = (cols[ctx.tape.below(2)].id(), vec![ctx.tape.choose(4) as u8]);
        vc += 1;
        let v = format!("b{vc}").repeat(1 + ctx.tape.below(3)).into_bytes();
        model.base.insert(k, v);
    }
    let base = Base {
        map: model.base.clone(),
        f: f.clone(),
    };
    ctx.ev(format!(
        "base={:?} faults={fault_pct}%",
        model
            .base
            .iter()
            .map(|(k, v)| format!("{}:{}={}", k.0, hx(&k.1), String::from_utf8_lossy(v)))
            .collect::<Vec<_>>()
    ));
    let mut stack = Stack::L0(base);
    let steps = 8 + ctx.tape.below(60);
    for _ in 0..steps {
        if ctx.failed() {
            return;
        }
        let depth = model.levels.len();
        let col = cols[ctx.tape.below(2)];
        let key = vec![ctx.tape.choose(4) as u8];
        let k: K = (col.id(), key.clone());
        let op = if depth == 0 {
            20 // must begin
        } else {
            ctx.tape.weighted(&[
                10, 4, 4, 5, 5, // get exists size read_exact read_zerofill
                10, 6, 5, 6, 6, 3, // put replace write take delete batch
                5, 5, 3, // begin commit drop
            ])
        };
        let inject = fault_pct > 0
            && depth > 0
            && matches!(op, 0..=4 | 6 | 8)
            && model.reaches_base(&k)
            && ctx.tape.chance(fault_pct, 100);
        if inject {
            f.fail_next_read.set(true);
        }
        let expected = model.get(&k);
        let tainted = model.is_tainted(&k);
        let reads_before = f.reads.get();
        match op {
            // ------------------------- reads -------------------------
            0..=4 => {
                let (desc, got, want): (String, Result<String, String>, String) = match op {
                    0 => {
                        let r = with_top!(&stack, t => t.get(&key, col), b => b.get(&key, col));
                        (
                            "get".into(),
                            r.map(|v| format!("{:?}", v.map(|v| v.to_vec()))).map_err(|e| e.to_string()),
                            format!("{:?}", expected),
                        )
                    }
                    1 => {
                        let r = with_top!(&stack, t => t.exists(&key, col), b => b.exists(&key, col));
                        (
                            "exists".into(),
                            r.map(|v| format!("{v}")).map_err(|e| e.to_string()),
                            format!("{}", expected.is_some()),
                        )
                    }
                    2 => {
                        let r = with_top!(&stack, t => t.size_of_value(&key, col), b => b.size_of_value(&key, col));
                        (
                            "size".into(),
                            r.map(|v| format!("{v:?}")).map_err(|e| e.to_string()),
                            format!("{:?}", expected.as_ref().map(|v| v.len())),
                        )
                    }
                    3 => {
                        let off = ctx.tape.below(8);
                        let len = ctx.tape.below(8);
                        let mut buf = vec![0xAAu8; len];
                        let r = with_top!(&stack, t => t.read_exact(&key, col, off, &mut buf), b => b.read_exact(&key, col, off, &mut buf));
                        let want = match &expected {
                            None => "Err(KeyNotFound)".to_string(),
                            Some(v) => match v.get(off..off.saturating_add(len)) {
                                None => "Err(OutOfBounds)".to_string(),
                                Some(d) => format!("Ok({len}) {}", hx(d)),
                            },
                        };
                        (
                            format!("read_exact off={off} len={len}"),
                            r.map(|v| match v {
                                Ok(n) => format!("Ok({n}) {}", hx(&buf)),
                                Err(StorageReadError::KeyNotFound) => "Err(KeyNotFound)".into(),
                                Err(StorageReadError::OutOfBounds) => "Err(OutOfBounds)".into(),
                            })
                            .map_err(|e| e.to_string()),
                            want,
                        )
                    }
                    _ => {
                        let off = ctx.tape.below(8);
                        let len = ctx.tape.below(8);
                        let mut buf = vec![0xAAu8; len];
                        let r = with_top!(&stack, t => t.read_zerofill(&key, col, off, &mut buf), b => b.read_zerofill(&key, col, off, &mut buf));
                        let want = match &expected {
                            None => "Err(KeyNotFound)".to_string(),
                            Some(v) => {
                                if off > v.len() {
                                    "Err(OutOfBounds)".to_string()
                                } else {
                                    let mut w = vec![0u8; len];
                                    let avail = &v[off..];
                                    let n = len.min(avail.len());
                                    w[..n].copy_from_slice(&avail[..n]);
                                    format!("Ok({}) {}", v.len(), hx(&w))
                                }
                            }
                        };
                        (
                            format!("read_zerofill off={off} len={len}"),
                            r.map(|v| match v {
                                Ok(n) => format!("Ok({n}) {}", hx(&buf)),
                                Err(StorageReadError::KeyNotFound) => "Err(KeyNotFound)".into(),
                                Err(StorageReadError::OutOfBounds) => "Err(OutOfBounds)".into(),
                            })
                            .map_err(|e| e.to_string()),
                            want,
                        )
                    }
                };
                ctx.op(format!("d{depth} {desc} {}:{} inject={inject} -> {got:?}", col.id(), hx(&key)));
                if tainted {
                    ctx.probe("read_of_tainted_key_skipped");
                } else if inject {
                    ctx.fault("base_read_error");
                    ctx.check("C10", "injected-read-error-swallowed", got.is_err(), || {
                        format!("{desc}: base read failed but the transaction returned {got:?}")
                    });
                } else {
                    ctx.check("C10", "read-mismatch", got.as_ref() == Ok(&want), || {
                        format!("{desc} {}:{} at depth {depth}: got {got:?} want {want}", col.id(), hx(&key))
                    });
                }
                // a read served from pending changes must not touch the base
                if model.certainly_pending(&k) {
                    ctx.check("C10", "pending-read-hit-base", f.reads.get() == reads_before, || {
                        "a key with a pending operation was read from the underlying storage".to_string()
                    });
                }
                f.fail_next_read.set(false);
            }
            // ------------------------- writes -------------------------
            5..=10 => {
                vc += 1;
                let newv = format!("v{vc}").repeat(1 + ctx.tape.below(3)).into_bytes();
                match op {
                    5 => {
                        let r = with_top!(&mut stack, t => t.put(&key, col, Value::from(newv.as_slice())), _b => unreachable!());
                        ctx.op(format!("d{depth} put {}:{}={}", col.id(), hx(&key), String::from_utf8_lossy(&newv)));
                        ctx.check("C10", "write-failed", r.is_ok(), || format!("{r:?}"));
                        model.set(k.clone(), Some(newv));
                    }
                    7 => {
                        let r = with_top!(&mut stack, t => t.write(&key, col, &newv), _b => unreachable!());
                        ctx.op(format!("d{depth} write {}:{}={}", col.id(), hx(&key), String::from_utf8_lossy(&newv)));
                        ctx.check("C10", "write-failed", r.as_ref().ok() == Some(&newv.len()), || format!("{r:?}"));
                        model.set(k.clone(), Some(newv));
                    }
                    9 => {
                        let r = with_top!(&mut stack, t => t.delete(&key, col), _b => unreachable!());
                        ctx.op(format!("d{depth} delete {}:{}", col.id(), hx(&key)));
                        ctx.check("C10", "write-failed", r.is_ok(), || format!("{r:?}"));
                        model.set(k.clone(), None);
                    }
                    6 | 8 => {
                        let is_replace = op == 6;
                        let r = if is_replace {
                            with_top!(&mut stack, t => t.replace(&key, col, Value::from(newv.as_slice())), _b => unreachable!())
                        } else {
                            with_top!(&mut stack, t => t.take(&key, col), _b => unreachable!())
                        };
                        let name = if is_replace { "replace" } else { "take" };
                        ctx.op(format!("d{depth} {name} {}:{} inject={inject} -> {:?}", col.id(), hx(&key), r.as_ref().map(|v| v.as_ref().map(|v| String::from_utf8_lossy(v).to_string())).map_err(|e| e.to_string())));
                        if inject {
                            ctx.fault("base_read_error");
                            ctx.check("C10", "injected-read-error-swallowed", r.is_err(), || {
                                format!("{name}: base read failed but the transaction returned {r:?}")
                            });
                            // the statement does not say whether the write took effect
                            model.taint(k.clone());
                        } else {
                            if !tainted {
                                let got = r.as_ref().ok().map(|v| v.as_ref().map(|v| v.to_vec()));
                                ctx.check("C10", "replace-take-old-value", got == Some(expected.clone()), || {
                                    format!("{name} {}:{} returned {got:?}, previous value was {expected:?}", col.id(), hx(&key))
                                });
                            }
                            model.set(k.clone(), if is_replace { Some(newv) } else { None });
                        }
                        f.fail_next_read.set(false);
                    }
                    _ => {
                        // batch on one column
                        let n = 1 + ctx.tape.below(3);
                        let mut entries = Vec::new();
                        let mut seen = BTreeSet::new();
                        for _ in 0..n {
                            let kk = vec![ctx.tape.choose(4) as u8];
                            if !seen.insert(kk.clone()) {
                                continue;
                            }
                            if ctx.tape.chance(1, 3) {
                                entries.push((kk, WriteOperation::Remove));
                            } else {
                                vc += 1;
                                entries.push((kk, WriteOperation::Insert(Value::from(format!("v{vc}").as_bytes()))));
                            }
                        }
                        ctx.op(format!("d{depth} batch col={} {:?}", col.id(), entries.iter().map(|(k, o)| format!("{}={}", hx(k), match o { WriteOperation::Insert(v) => String::from_utf8_lossy(v).to_string(), WriteOperation::Remove => "DEL".into() })).collect::<Vec<_>>()));
                        let r = with_top!(&mut stack, t => t.batch_write(col, entries.clone().into_iter()), _b => unreachable!());
                        ctx.check("C10", "write-failed", r.is_ok(), || format!("{r:?}"));
                        for (kk, o) in entries {
                            let kkk = (col.id(), kk);
                            model.set(
                                kkk,
                                match o {
                                    WriteOperation::Insert(v) => Some(v.to_vec()),
                                    WriteOperation::Remove => None,
                                },
                            );
                        }
                    }
                }
            }
            // ------------------------- begin -------------------------
            11 | 20 => {
                if depth >= 3 {
                    continue;
                }
                let fail_policy = ctx.tape.chance(1, 3);
                let policy = if fail_policy { ConflictPolicy::Fail } else { ConflictPolicy::Overwrite };
                // optionally start the transaction with pre-loaded changes
                let mut pre = Changes::default();
                let mut pre_model = BTreeMap::new();
                if ctx.tape.chance(1, 5) {
                    vc += 1;
                    let kk = vec![ctx.tape.choose(4) as u8];
                    let v = format!("p{vc}").into_bytes();
                    pre.entry(col.id()).or_default().insert(kk.clone().into(), WriteOperation::Insert(Value::from(v.as_slice())));
                    pre_model.insert((col.id(), kk), Some(v));
                }
                ctx.op(format!("d{depth} begin policy={policy:?} preloaded={}", pre_model.len()));
                stack = match std::mem::replace(&mut stack, Stack::Gone) {
                    Stack::L0(b) => Stack::L1(StorageTransaction::transaction(b, policy, pre)),
                    Stack::L1(t) => Stack::L2(StorageTransaction::transaction(t, policy, pre)),
                    Stack::L2(t) => Stack::L3(StorageTransaction::transaction(t, policy, pre)),
                    _ => unreachable!(),
                };
                model.levels.push(Level { changes: pre_model, tainted: BTreeSet::new(), policy_fail: fail_policy });
            }
            // ------------------------- commit -------------------------
            12 => {
                let top = model.levels.pop().unwrap();
                let inject_commit = depth == 1 && fault_pct > 0 && ctx.tape.chance(fault_pct, 100);
                if inject_commit {
                    f.fail_next_commit.set(true);
                    ctx.fault("base_commit_error");
                }
                // expected conflict: the parent transaction has policy Fail and already holds
                // an operation for one of the keys being merged (same column)
                let parent_fail = model.levels.last().map(|p| p.policy_fail).unwrap_or(false);
                let conflict = model
                    .levels
                    .last()
                    .map(|p| p.policy_fail && top.changes.keys().any(|k| p.changes.contains_key(k)))
                    .unwrap_or(false);
                // a tainted key on either side makes the expectation uncertain
                let uncertain = parent_fail
                    && !conflict
                    && model
                        .levels
                        .last()
                        .map(|p| {
                            top.tainted.iter().any(|k| p.changes.contains_key(k) || p.tainted.contains(k))
                                || top.changes.keys().any(|k| p.tainted.contains(k))
                        })
                        .unwrap_or(false);
                if model.levels.last().map(|p| p.policy_fail).unwrap_or(false) {
                    ctx.probe("merge_into_fail_policy_parent");
                }
                ctx.op(format!("d{depth} commit keys={} expect_conflict={conflict} inject={inject_commit}", top.changes.len()));
                let res: Result<Stack, String> = match std::mem::replace(&mut stack, Stack::Gone) {
                    Stack::L1(t) => t.commit().map(Stack::L0).map_err(|e| e.to_string()),
                    Stack::L2(t) => t.commit().map(Stack::L1).map_err(|e| e.to_string()),
                    Stack::L3(t) => t.commit().map(Stack::L2).map_err(|e| e.to_string()),
                    _ => unreachable!(),
                };
                f.fail_next_commit.set(false);
                match res {
                    Ok(s) => {
                        stack = s;
                        ctx.check("C10", "conflicting-merge-accepted", !conflict || uncertain, || {
                            "merge under ConflictPolicy::Fail accepted although both wrote the same key".to_string()
                        });
                        ctx.check("C10", "injected-commit-error-swallowed", !inject_commit, || {
                            "base commit failed but commit() returned Ok".to_string()
                        });
                        if conflict {
                            return;
                        }
                        match model.levels.last_mut() {
                            Some(p) => {
                                for (k, v) in top.changes {
                                    p.tainted.remove(&k);
                                    p.changes.insert(k, v);
                                }
                                for k in top.tainted {
                                    p.changes.remove(&k);
                                    p.tainted.insert(k);
                                }
                            }
                            None => {
                                for (k, v) in top.changes {
                                    match v {
                                        Some(v) => {
                                            model.base.insert(k, v);
                                        }
                                        None => {
                                            model.base.remove(&k);
                                        }
                                    }
                                }
                                // exact commit: compare the whole base, tainted keys excluded
                                if let Stack::L0(b) = &stack {
                                    let mut a = b.map.clone();
                                    let mut m = model.base.clone();
                                    for k in &top.tainted {
                                        a.remove(k);
                                        m.remove(k);
                                    }
                                    ctx.check("C10", "commit-not-exact", a == m, || {
                                        format!("base after commit {:?} != model {:?}", a, m)
                                    });
                                    model.base = b.map.clone();
                                }
                            }
                        }
                    }
                    Err(e) => {
                        if inject_commit {
                            ctx.probe("commit_error_propagated");
                        } else {
                            ctx.check("C10", "merge-rejected-without-conflict", conflict || uncertain, || {
                                format!("commit failed without a conflicting key: {e}")
                            });
                            ctx.probe("conflicting_merge_rejected");
                        }
                        // the transaction (and its parents) were consumed by the failed commit
                        return;
                    }
                }
            }
            // ------------------------- drop -------------------------
            _ => {
                let _ = model.levels.pop().unwrap();
                ctx.op(format!("d{depth} drop"));
                stack = match std::mem::replace(&mut stack, Stack::Gone) {
                    Stack::L1(t) => Stack::L0(t.into_inner().0),
                    Stack::L2(t) => Stack::L1(t.into_inner().0),
                    Stack::L3(t) => Stack::L2(t.into_inner().0),
                    _ => unreachable!(),
                };
                // dropping changes nothing: the parent's visible state equals the model
                for c in cols {
                    for kb in 0..4u8 {
                        let kk = (c.id(), vec![kb]);
                        if model.is_tainted(&kk) {
                            continue;
                        }
                        let got = with_top!(&stack, t => t.get(&kk.1, c), b => b.get(&kk.1, c));
                        let want = model.get(&kk);
                        ctx.check("C10", "drop-changed-state", got.as_ref().ok().map(|v| v.as_ref().map(|v| v.to_vec())) == Some(want.clone()), || {
                            format!("after drop key {}:{} reads {:?}, want {:?}", c.id(), hx(&kk.1), got, want)
                        });
                    }
                }
            }
        }
    }
}
