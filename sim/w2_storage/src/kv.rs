//! kv mode — one commit/restart/rollback history applied to a sorted-map model and to every
//! real storage backend: `MemoryStore`, `RocksDb`, `HistoricalRocksDB` under several rewind
//! policies (restarted with changed policies at tape-chosen points). Oracles: C11 (contents and
//! iteration identical to the model), C12 (historical views and rollbacks).

use fuel_core::{
    database::database_description::on_chain::OnChain,
    state::{
        TransactableStorage,
        historical_rocksdb::{
            HistoricalRocksDB,
            StateRewindPolicy,
        },
        in_memory::memory_store::MemoryStore,
        rocks_db::{
            DatabaseConfig,
            RocksDb,
        },
    },
};
use fuel_core_storage::{
    column::Column,
    iter::{
        IterDirection,
        IterableStore,
    },
    kv_store::{
        KeyValueInspect,
        StorageColumn,
        WriteOperation,
    },
    transactional::{
        Changes,
        StorageChanges,
    },
};
use fuel_core_types::fuel_types::BlockHeight;
use simkit::{
    Ctx,
    Tier,
};
use std::{
    collections::BTreeMap,
    num::NonZeroU64,
    sync::Arc,
};

type Model = BTreeMap<u32, BTreeMap<Vec<u8>, Vec<u8>>>;

const ALPHABET: [u8; 5] = [0x00, 0x01, 0x7f, 0xfe, 0xff];

/// Columns used as raw key-value spaces. `ContractsState` has a 32-byte RocksDB prefix
/// extractor, so its keys get a 32-byte head.
fn columns() -> [Column; 3] {
    [Column::Coins, Column::Messages, Column::ContractsState]
}

fn hx(b: &[u8]) -> String {
    let mut s = String::new();
    for x in b {
        s.push_str(&format!("{x:02x}"));
    }
    if s.is_empty() { "-".into() } else { s }
}

struct KeyGen {
    fixed_len: bool,
}

impl KeyGen {
    fn tail(&self, ctx: &mut Ctx, col_idx: usize) -> Vec<u8> {
        let len = if self.fixed_len {
            [1usize, 2, 2][col_idx]
        } else {
            ctx.tape.weighted(&[1, 6, 6, 4])
        };
        (0..len).map(|_| *ctx.tape.pick(&ALPHABET)).collect()
    }
    fn key(&self, ctx: &mut Ctx, col_idx: usize) -> Vec<u8> {
        if col_idx == 2 {
            // 32-byte head: 31 equal bytes + a varying last byte, then a short tail
            let a = *ctx.tape.pick(&[0x01u8, 0xff, 0x7f]);
            let b = *ctx.tape.pick(&ALPHABET);
            let mut k = vec![a; 31];
            k.push(b);
            k.extend(self.tail(ctx, col_idx));
            k
        } else {
            self.tail(ctx, col_idx)
        }
    }
}

fn policy_name(p: &StateRewindPolicy) -> String {
    match p {
        StateRewindPolicy::NoRewind => "NoRewind".into(),
        StateRewindPolicy::RewindFullRange => "Full".into(),
        StateRewindPolicy::RewindRange { size } => format!("Range{}", size.get()),
    }
}

fn retention(p: &StateRewindPolicy) -> u64 {
    match p {
        StateRewindPolicy::NoRewind => 0,
        StateRewindPolicy::RewindRange { size } => size.get(),
        StateRewindPolicy::RewindFullRange => u64::MAX,
    }
}

fn pick_policy(ctx: &mut Ctx) -> StateRewindPolicy {
    match ctx.tape.weighted(&[3, 2, 5]) {
        0 => StateRewindPolicy::RewindFullRange,
        1 => StateRewindPolicy::NoRewind,
        _ => StateRewindPolicy::RewindRange {
            size: NonZeroU64::new(*ctx.tape.pick(&[1u64, 2, 3, 7])).unwrap(),
        },
    }
}

struct Hist {
    dir: tempfile::TempDir,
    db: Option<HistoricalRocksDB<OnChain>>,
    policy: StateRewindPolicy,
    /// Heights h for which the model knows the history is complete: the reverse changes of
    /// every height in (h, latest] were recorded. Maintained by the harness from the policies
    /// that were active; used only to decide whether a `no history` answer was *required*.
    name: String,
    /// true once this backend ran a height-carrying commit under NoRewind after having recorded
    /// history (the situation of candidate defect F3).
    had_norewind_gap: bool,
    has_heights: bool,
}

impl Hist {
    fn open(&mut self) {
        let db = HistoricalRocksDB::<OnChain>::default_open(
            self.dir.path(),
            self.policy,
            DatabaseConfig::config_for_tests(),
        )
        .expect("open historical rocksdb");
        self.db = Some(db);
    }
    fn db(&self) -> &HistoricalRocksDB<OnChain> {
        self.db.as_ref().unwrap()
    }
}

fn model_iter(
    m: &BTreeMap<Vec<u8>, Vec<u8>>,
    prefix: Option<&[u8]>,
    start: Option<&[u8]>,
    dir: IterDirection,
) -> Vec<(Vec<u8>, Vec<u8>)> {
    let mut v: Vec<(Vec<u8>, Vec<u8>)> = m
        .iter()
        .filter(|(k, _)| prefix.map(|p| k.starts_with(p)).unwrap_or(true))
        .filter(|(k, _)| match (start, dir) {
            (None, _) => true,
            (Some(s), IterDirection::Forward) => k.as_slice() >= s,
            (Some(s), IterDirection::Reverse) => k.as_slice() <= s,
        })
        .map(|(k, v)| (k.clone(), v.clone()))
        .collect();
    if dir == IterDirection::Reverse {
        v.reverse();
    }
    v
}

fn collect_iter<S: IterableStore<Column = Column>>(
    s: &S,
    col: Column,
    prefix: Option<&[u8]>,
    start: Option<&[u8]>,
    dir: IterDirection,
) -> Result<Vec<(Vec<u8>, Vec<u8>)>, String> {
    let mut out = Vec::new();
    for item in s.iter_store(col, prefix, start, dir) {
        let (k, v) = item.map_err(|e| format!("{e:?}"))?;
        out.push((k, v.to_vec()));
    }
    Ok(out)
}

fn collect_keys<S: IterableStore<Column = Column>>(
    s: &S,
    col: Column,
    prefix: Option<&[u8]>,
    start: Option<&[u8]>,
    dir: IterDirection,
) -> Result<Vec<Vec<u8>>, String> {
    let mut out = Vec::new();
    for item in s.iter_store_keys(col, prefix, start, dir) {
        out.push(item.map_err(|e| format!("{e:?}"))?);
    }
    Ok(out)
}

fn apply_model(model: &mut Model, list: &[Vec<(u32, Vec<u8>, Option<Vec<u8>>)>]) {
    for set in list {
        for (c, k, v) in set {
            let col = model.entry(*c).or_default();
            match v {
                Some(v) => {
                    col.insert(k.clone(), v.clone());
                }
                None => {
                    col.remove(k);
                }
            }
        }
    }
}

fn to_changes(set: &[(u32, Vec<u8>, Option<Vec<u8>>)]) -> Changes {
    let mut ch = Changes::default();
    for (c, k, v) in set {
        let op = match v {
            Some(v) => WriteOperation::Insert(v.clone().into()),
            None => WriteOperation::Remove,
        };
        ch.entry(*c).or_default().insert(k.clone().into(), op);
    }
    ch
}

fn to_storage_changes(list: &[Vec<(u32, Vec<u8>, Option<Vec<u8>>)>]) -> StorageChanges {
    if list.len() == 1 {
        StorageChanges::Changes(to_changes(&list[0]))
    } else {
        StorageChanges::ChangesList(list.iter().map(|s| to_changes(s)).collect())
    }
}

pub fn run(ctx: &mut Ctx) {
    let cols = columns();
    let fixed_len = ctx.prop == "C12" || ctx.tape.chance(1, 4);
    let kg = KeyGen { fixed_len };
    let thorough = ctx.tier == Tier::Thorough;

    // ---- backends ----
    let mem = Arc::new(MemoryStore::<OnChain>::default());
    let rocks = RocksDb::<OnChain>::default_open_temp().expect("rocksdb temp");
    let n_hist = 1 + ctx.tape.below(if thorough { 3 } else { 2 });
    let mut hists: Vec<Hist> = Vec::new();
    for i in 0..n_hist {
        let policy = pick_policy(ctx);
        let mut h = Hist {
            dir: tempfile::TempDir::new().expect("tempdir"),
            db: None,
            policy,
            name: format!("hist{i}"),
            had_norewind_gap: false,
            has_heights: false,
        };
        h.open();
        hists.push(h);
    }
    ctx.ev(format!(
        "backends: memory, rocksdb, {} fixed_len={fixed_len}",
        hists
            .iter()
            .map(|h| format!("{}[{}]", h.name, policy_name(&h.policy)))
            .collect::<Vec<_>>()
            .join(", ")
    ));

    let mut model: Model = BTreeMap::new();
    for c in cols {
        model.insert(c.id(), BTreeMap::new());
    }
    // snapshots[h] = model state right after the commit of height h
    let mut snapshots: BTreeMap<u64, Model> = BTreeMap::new();
    let mut latest: Option<u64> = None;
    let first_height = ctx.tape.small(5);
    let mut value_counter: u32 = 0;
    let mut universe: BTreeMap<u32, std::collections::BTreeSet<Vec<u8>>> = BTreeMap::new();
    // per hist backend: set of heights whose reverse changes it must hold according to the
    // policy history (harness bookkeeping for "no history was required/forbidden")
    let steps = 4 + ctx.tape.below(if thorough { 28 } else { 16 });

    for _step in 0..steps {
        if ctx.failed() {
            return;
        }
        let kind = ctx.tape.weighted(&[60, 12, 10, 6]);
        match kind {
            // ---------------- commit ----------------
            0 => {
                let with_height = latest.is_some() || ctx.tape.chance(3, 4);
                let height = if with_height {
                    Some(latest.map(|l| l + 1).unwrap_or(first_height))
                } else {
                    None
                };
                let nsets = 1 + ctx.tape.weighted(&[5, 3, 1]);
                let mut list: Vec<Vec<(u32, Vec<u8>, Option<Vec<u8>>)>> = Vec::new();
                let mut used: std::collections::BTreeSet<(u32, Vec<u8>)> = Default::default();
                for _ in 0..nsets {
                    let nops = ctx.tape.small(6) as usize;
                    let mut set = Vec::new();
                    for _ in 0..nops {
                        let ci = ctx.tape.below(3);
                        let c = cols[ci].id();
                        // prefer keys that exist (overwrite / delete) half of the time
                        let existing: Vec<Vec<u8>> = model[&c].keys().cloned().collect();
                        let k = if !existing.is_empty() && ctx.tape.coin() {
                            ctx.tape.pick(&existing).clone()
                        } else {
                            kg.key(ctx, ci)
                        };
                        if !used.insert((c, k.clone())) {
                            continue; // the same key twice in one commit is a caller error
                        }
                        let op = ctx.tape.weighted(&[6, 3, 1]);
                        let v = match op {
                            0 => {
                                value_counter += 1;
                                Some(format!("v{value_counter}").into_bytes())
                            }
                            1 => None,
                            _ => {
                                // no-op write: same value as present (or delete of absent)
                                model[&c].get(&k).cloned()
                            }
                        };
                        universe.entry(c).or_default().insert(k.clone());
                        set.push((c, k, v));
                    }
                    list.push(set);
                }
                ctx.op(format!(
                    "commit h={height:?} sets={}",
                    list.iter()
                        .map(|s| s
                            .iter()
                            .map(|(c, k, v)| format!(
                                "{c}:{}={}",
                                hx(k),
                                v.as_ref()
                                    .map(|v| String::from_utf8_lossy(v).to_string())
                                    .unwrap_or("DEL".into())
                            ))
                            .collect::<Vec<_>>()
                            .join(","))
                        .collect::<Vec<_>>()
                        .join(" | ")
                ));
                if list.len() > 1 {
                    let mut seen_cols = std::collections::BTreeSet::new();
                    let mut overlap = false;
                    for s in &list {
                        let cs: std::collections::BTreeSet<u32> = s.iter().map(|x| x.0).collect();
                        if cs.iter().any(|c| seen_cols.contains(c)) {
                            overlap = true;
                        }
                        seen_cols.extend(cs);
                    }
                    if overlap {
                        ctx.probe("list_with_overlapping_columns");
                    }
                }
                apply_model(&mut model, &list);
                if let Some(h) = height {
                    snapshots.insert(h, model.clone());
                    latest = Some(h);
                }
                let bh = height.map(|h| BlockHeight::from(h as u32));
                let r = mem.commit_changes(bh, to_storage_changes(&list));
                ctx.check("C11", "commit-failed:memory", r.is_ok(), || format!("{r:?}"));
                let r = rocks.commit_changes(&to_storage_changes(&list));
                ctx.check("C11", "commit-failed:rocksdb", r.is_ok(), || format!("{r:?}"));
                for h in hists.iter_mut() {
                    let r = h.db().commit_changes(bh, to_storage_changes(&list));
                    ctx.check("C11", "commit-failed:historical", r.is_ok(), || {
                        format!("{} {r:?}", h.name)
                    });
                    if height.is_some() {
                        h.has_heights = true;
                    }
                }
            }
            // ---------------- restart (crash: drop without shutdown, reopen) ----------------
            1 => {
                let i = ctx.tape.below(hists.len());
                let change = ctx.tape.chance(2, 3);
                let h = &mut hists[i];
                let old = h.policy;
                h.db = None; // drop = process death; only the RocksDB directory survives
                if change {
                    h.policy = pick_policy(ctx);
                }
                h.open();
                ctx.fault("restart");
                if old != h.policy {
                    ctx.fault("restart_policy_change");
                    // a restart that keeps less history than before leaves stale / gapped
                    // history behind (known finding): views of older heights may be wrong
                    if h.has_heights && retention(&h.policy) < retention(&old) {
                        h.had_norewind_gap = true;
                        ctx.fault("restart_policy_shrunk");
                    }
                }
                ctx.op(format!(
                    "restart {} {} -> {}",
                    h.name,
                    policy_name(&old),
                    policy_name(&h.policy)
                ));
            }
            // ---------------- rollback of the latest block ----------------
            2 => {
                let Some(l) = latest else { continue };
                ctx.op(format!("rollback latest={l}"));
                // The model can roll back only if it knows the previous state.
                let prev = if l == first_height {
                    // state before the first height = whatever was committed without height
                    None
                } else {
                    snapshots.get(&(l - 1)).cloned()
                };
                let mut all_ok = true;
                let mut results = Vec::new();
                for h in hists.iter() {
                    let before = dump_all(h.db(), &cols);
                    let r = h.db().rollback_block_to(&BlockHeight::from(l as u32));
                    let after = dump_all(h.db(), &cols);
                    match &r {
                        Ok(()) => {}
                        Err(_) => {
                            all_ok = false;
                            ctx.check(
                                "C12",
                                "failed-rollback-changed-state",
                                before == after,
                                || format!("{} rollback of {l} failed but changed the state", h.name),
                            );
                        }
                    }
                    results.push((h.name.clone(), r.is_ok(), after));
                }
                // All historical backends must agree on the data if they rolled back; a
                // backend without history for `l` must fail.
                if all_ok {
                    if let Some(prev) = prev {
                        for (name, _, after) in &results {
                            let gap = hists.iter().find(|h| &h.name == name).unwrap().had_norewind_gap;
                            let class = if gap { "rollback-wrong-state:after-shrinking-policy-change" } else { "rollback-wrong-state" };
                            ctx.check("C12", class, *after == flatten(&prev, &cols), || {
                                format!("{name}: state after rollback of {l} differs from the state after block {}", l - 1)
                            });
                        }
                        // carry the rollback over to model and to the non-historical backends
                        let diff = diff_models(&model, &prev, &cols);
                        model = prev;
                        snapshots.remove(&l);
                        latest = Some(l - 1);
                        if !diff.is_empty() {
                            let _ = mem.commit_changes(None, StorageChanges::Changes(to_changes(&diff)));
                            let _ = rocks.commit_changes(&StorageChanges::Changes(to_changes(&diff)));
                        }
                        ctx.probe("rollback_done");
                    } else {
                        // rolled back the very first height: resync everything to what hist0 has
                        // is not possible in general; end the run here (rare).
                        ctx.probe("rollback_of_first_height");
                        return;
                    }
                } else {
                    // some backend could not roll back: re-apply to the ones that did, so the
                    // backends stay comparable (a forward commit of the same block again).
                    for (name, ok, _) in &results {
                        if *ok {
                            let h = hists.iter().find(|h| &h.name == name).unwrap();
                            let prev_state = dump_all(h.db(), &cols);
                            let target = flatten(&model, &cols);
                            let diff = diff_flat(&prev_state, &target);
                            let r = h.db().commit_changes(
                                Some(BlockHeight::from(l as u32)),
                                StorageChanges::Changes(to_changes(&diff)),
                            );
                            ctx.check("C12", "recommit-after-rollback-failed", r.is_ok(), || format!("{name} {r:?}"));
                            ctx.probe("recommit_after_partial_rollback");
                        }
                    }
                }
            }
            // ---------------- nothing (views only) ----------------
            _ => {
                ctx.op("observe");
            }
        }

        // ================= oracles after every step =================
        // C11 contents
        let want = flatten(&model, &cols);
        let got = dump_all(mem.as_ref(), &cols);
        ctx.check("C11", "contents:memory", got == want, || diff_msg("memory", &got, &want));
        let got = dump_all(&rocks, &cols);
        ctx.check("C11", "contents:rocksdb", got == want, || diff_msg("rocksdb", &got, &want));
        for h in hists.iter() {
            let got = dump_all(h.db(), &cols);
            let class = if h.policy == StateRewindPolicy::NoRewind {
                "contents:historical-norewind"
            } else {
                "contents:historical"
            };
            ctx.check("C11", class, got == want, || {
                diff_msg(&format!("{}[{}]", h.name, policy_name(&h.policy)), &got, &want)
            });
        }
        if ctx.failed() {
            return;
        }
        // C11 iteration queries
        let nq = if thorough { 10 } else { 6 };
        for _ in 0..nq {
            let ci = ctx.tape.below(3);
            let col = cols[ci];
            let m = &model[&col.id()];
            let keys: Vec<Vec<u8>> = m.keys().cloned().collect();
            let base: Vec<u8> = if !keys.is_empty() && ctx.tape.chance(3, 4) {
                ctx.tape.pick(&keys).clone()
            } else {
                kg.key(ctx, ci)
            };
            let prefix: Option<Vec<u8>> = match ctx.tape.weighted(&[2, 5, 2, 1]) {
                0 => None,
                1 => {
                    // a prefix of an existing / generated key (including the full key)
                    let l = ctx.tape.below(base.len() + 1);
                    Some(base[..l].to_vec())
                }
                2 => {
                    // the 32-byte head for the prefixed column, else 1 byte
                    let l = if ci == 2 { 32.min(base.len()) } else { 1.min(base.len()) };
                    Some(base[..l].to_vec())
                }
                _ => Some(kg.key(ctx, ci)),
            };
            let start: Option<Vec<u8>> = match ctx.tape.weighted(&[3, 3, 2, 1]) {
                0 => None,
                1 => {
                    // under the prefix: prefix + tail
                    let mut s = prefix.clone().unwrap_or_default();
                    let extra = ctx.tape.below(3);
                    for _ in 0..extra {
                        s.push(*ctx.tape.pick(&ALPHABET));
                    }
                    Some(s)
                }
                2 => {
                    if keys.is_empty() { None } else { Some(ctx.tape.pick(&keys).clone()) }
                }
                _ => Some(kg.key(ctx, ci)),
            };
            let dir = if ctx.tape.coin() { IterDirection::Reverse } else { IterDirection::Forward };
            let in_domain = match (&prefix, &start) {
                (Some(p), Some(s)) => s.starts_with(p),
                _ => true,
            };
            let p = prefix.as_deref();
            let s = start.as_deref();
            if let Some(p) = p {
                if p.last() == Some(&0xff) && dir == IterDirection::Reverse && s.is_none() {
                    ctx.probe("reverse_prefix_with_ff_tail");
                }
                if dir == IterDirection::Reverse && s.is_none() {
                    // key equal to the successor of the prefix present?
                    let mut succ = p.to_vec();
                    while let Some(l) = succ.pop() {
                        if l < 0xff {
                            succ.push(l + 1);
                            break;
                        }
                    }
                    if !succ.is_empty() && m.contains_key(&succ) {
                        ctx.probe("reverse_prefix_successor_key_present");
                    }
                }
            }
            let qdesc = format!(
                "iter col={} prefix={} start={} dir={:?}",
                col.id(),
                p.map(hx).unwrap_or("none".into()),
                s.map(hx).unwrap_or("none".into()),
                dir
            );
            if !in_domain {
                // unspecified region (RocksDb documents "return nothing", MemoryStore differs):
                // statistic only
                let a = collect_iter(mem.as_ref(), col, p, s, dir);
                let b = collect_iter(&rocks, col, p, s, dir);
                if a != b {
                    ctx.probe("start_outside_prefix:backends_differ(info)");
                }
                continue;
            }
            ctx.ev(&qdesc);
            let want = model_iter(m, p, s, dir);
            let want_keys: Vec<Vec<u8>> = want.iter().map(|x| x.0.clone()).collect();
            let sub = if dir == IterDirection::Reverse && s.is_none() && p.is_some() {
                ":reverse-prefix"
            } else {
                ""
            };
            let got = collect_iter(mem.as_ref(), col, p, s, dir);
            ctx.check("C11", &format!("iter:memory{sub}"), got.as_ref() == Ok(&want), || {
                format!("{qdesc}: memory returned {} want {}", show(&got), show_ok(&want))
            });
            let got = collect_iter(&rocks, col, p, s, dir);
            ctx.check("C11", &format!("iter:rocksdb{sub}"), got.as_ref() == Ok(&want), || {
                format!("{qdesc}: rocksdb returned {} want {}", show(&got), show_ok(&want))
            });
            let gotk = collect_keys(&rocks, col, p, s, dir);
            ctx.check("C11", &format!("iter-keys:rocksdb{sub}"), gotk.as_ref() == Ok(&want_keys), || {
                format!("{qdesc}: rocksdb keys {:?} want {:?}", gotk, want_keys)
            });
            let gotk = collect_keys(mem.as_ref(), col, p, s, dir);
            ctx.check("C11", &format!("iter-keys:memory{sub}"), gotk.as_ref() == Ok(&want_keys), || {
                format!("{qdesc}: memory keys {:?} want {:?}", gotk, want_keys)
            });
            for h in hists.iter() {
                let got = collect_iter(h.db(), col, p, s, dir);
                ctx.check("C11", &format!("iter:historical{sub}"), got.as_ref() == Ok(&want), || {
                    format!("{qdesc}: {} returned {} want {}", h.name, show(&got), show_ok(&want))
                });
            }
            // the latest view of the historical db iterates identically too
            if let Some(h) = hists.first() {
                let v = h.db().latest_view();
                let got = collect_iter(&v, col, p, s, dir);
                ctx.check("C11", &format!("iter:latest-view{sub}"), got.as_ref() == Ok(&want), || {
                    format!("{qdesc}: latest view returned {} want {}", show(&got), show_ok(&want))
                });
            }
            if ctx.failed() {
                return;
            }
        }

        // C12 views at every height ever committed (and one beyond)
        if let Some(l) = latest {
            let lo = first_height.saturating_sub(1);
            for hgt in lo..=l + 1 {
                for h in hists.iter() {
                    let view = h.db().view_at_height(&BlockHeight::from(hgt as u32));
                    match view {
                        Err(e) => {
                            let msg = format!("{e}");
                            ctx.check(
                                "C12",
                                "view-error-not-no-history",
                                msg.contains("doesn't have history")
                                    || msg.contains("NoHistoryForRequestedHeight"),
                                || format!("{} view_at({hgt}) failed with {msg}", h.name),
                            );
                            ctx.probe("view_no_history");
                        }
                        Ok(view) => {
                            let Some(snap) = snapshots.get(&hgt) else {
                                // a view of a height the model has no snapshot for (before the
                                // first height or beyond the tip): for hgt > latest the view
                                // must not exist
                                if hgt > l {
                                    ctx.check("C12", "view-of-future-height", false, || {
                                        format!("{} returned a view for height {hgt} > latest {l}", h.name)
                                    });
                                }
                                continue;
                            };
                            ctx.probe("view_checked");
                            let class = if h.had_norewind_gap {
                                "view-wrong-state:after-shrinking-policy-change"
                            } else {
                                "view-wrong-state"
                            };
                            let mut bad = None;
                            'outer: for c in cols {
                                let empty = Default::default();
                                let uni = universe.get(&c.id()).unwrap_or(&empty);
                                for k in uni {
                                    let got = view.get(k, c).map(|v| v.map(|v| v.to_vec()));
                                    let want = snap[&c.id()].get(k).cloned();
                                    if got.as_ref().ok() != Some(&want) {
                                        bad = Some(format!(
                                            "{}[{}] view_at({hgt}) (latest {l}) col {} key {}: got {:?} want {:?}",
                                            h.name,
                                            policy_name(&h.policy),
                                            c.id(),
                                            hx(k),
                                            got.map(|v| v.map(|v| String::from_utf8_lossy(&v).to_string())),
                                            want.map(|v| String::from_utf8_lossy(&v).to_string())
                                        ));
                                        break 'outer;
                                    }
                                }
                            }
                            ctx.check("C12", class, bad.is_none(), || bad.clone().unwrap());
                        }
                    }
                }
            }
        }
    }
    ctx.sim_ms += steps as u64 * 1000;
}

type Flat = Vec<(u32, Vec<u8>, Vec<u8>)>;

fn flatten(m: &Model, cols: &[Column; 3]) -> Flat {
    let mut out = Vec::new();
    for c in cols {
        if let Some(col) = m.get(&c.id()) {
            for (k, v) in col {
                out.push((c.id(), k.clone(), v.clone()));
            }
        }
    }
    out
}

fn dump_all<S: IterableStore<Column = Column>>(s: &S, cols: &[Column; 3]) -> Flat {
    let mut out = Vec::new();
    for c in cols {
        for item in s.iter_store(*c, None, None, IterDirection::Forward) {
            match item {
                Ok((k, v)) => out.push((c.id(), k, v.to_vec())),
                Err(e) => out.push((c.id(), b"<error>".to_vec(), format!("{e:?}").into_bytes())),
            }
        }
    }
    out
}

fn diff_models(cur: &Model, target: &Model, cols: &[Column; 3]) -> Vec<(u32, Vec<u8>, Option<Vec<u8>>)> {
    diff_flat(&flatten(cur, cols), &flatten(target, cols))
}

/// Operations that turn `cur` into `target`.
fn diff_flat(cur: &Flat, target: &Flat) -> Vec<(u32, Vec<u8>, Option<Vec<u8>>)> {
    let c: BTreeMap<(u32, Vec<u8>), Vec<u8>> =
        cur.iter().map(|(c, k, v)| ((*c, k.clone()), v.clone())).collect();
    let t: BTreeMap<(u32, Vec<u8>), Vec<u8>> =
        target.iter().map(|(c, k, v)| ((*c, k.clone()), v.clone())).collect();
    let mut out = Vec::new();
    for (k, v) in &t {
        if c.get(k) != Some(v) {
            out.push((k.0, k.1.clone(), Some(v.clone())));
        }
    }
    for k in c.keys() {
        if !t.contains_key(k) {
            out.push((k.0, k.1.clone(), None));
        }
    }
    out
}

fn diff_msg(name: &str, got: &Flat, want: &Flat) -> String {
    let d1 = diff_flat(got, want);
    format!(
        "{name}: contents differ from the model; to reach the model one needs {}",
        d1.iter()
            .take(6)
            .map(|(c, k, v)| format!(
                "{c}:{}={}",
                hx(k),
                v.as_ref()
                    .map(|v| String::from_utf8_lossy(v).to_string())
                    .unwrap_or("DEL".into())
            ))
            .collect::<Vec<_>>()
            .join(", ")
    )
}

fn show(r: &Result<Vec<(Vec<u8>, Vec<u8>)>, String>) -> String {
    match r {
        Ok(v) => show_ok(v),
        Err(e) => format!("Err({e})"),
    }
}
fn show_ok(v: &[(Vec<u8>, Vec<u8>)]) -> String {
    format!(
        "[{}]",
        v.iter()
            .map(|(k, v)| format!("{}={}", hx(k), String::from_utf8_lossy(v)))
            .collect::<Vec<_>>()
            .join(" ")
    )
}
