//! W2 storage — one history of commits / restarts / rollbacks applied to a reference model and
//! to the real storage layers of fuel-core. Modes (selected by the property under check):
//!   kv      C11, C12   all backends vs. sorted-map model; historical views and rollbacks
//!   height  C09        `Database<Description>` height linking over a fault-injecting store
//!   tx      C10        nested storage transactions vs. a stack-of-maps model
//!   merkle  C13        merklized block table vs. from-scratch binary Merkle roots

mod height;
mod kv;
mod merkle;
mod txmode;

use simkit::{
    Ctx,
    Tier,
    World,
};

struct Storage;

impl World for Storage {
    fn name(&self) -> &'static str {
        "w2_storage"
    }
    fn properties(&self) -> Vec<&'static str> {
        vec!["C09", "C10", "C11", "C12", "C13"]
    }
    fn real_components(&self) -> Vec<&'static str> {
        vec![
            "fuel_core::state::in_memory::memory_store::MemoryStore",
            "fuel_core::state::rocks_db::RocksDb (real RocksDB in a temp dir)",
            "fuel_core::state::historical_rocksdb::HistoricalRocksDB + ViewAtHeight (all rewind policies)",
            "fuel_core_storage::iter::{iterator, keys_iterator}, changes iterator",
            "fuel_core::database::Database<OnChain|OffChain|Relayer|GasPriceDatabase|CompressionDatabase> (commit_changes_with_height_update, rollback_last_block, metadata)",
            "fuel_core_storage::transactional::{StorageTransaction, InMemoryTransaction}, StructuredStorage, kv_store default methods",
            "fuel_core_storage::blueprint::merklized::Merklized on the FuelBlocks table (+ fuel-merkle binary tree)",
        ]
    }
    fn stubs(&self) -> Vec<&'static str> {
        vec![
            "file-system crash semantics below RocksDB (WriteBatch atomicity trusted; crash = drop of all handles between two calls, reopen of the directory)",
        ]
    }
    fn default_runs(&self, prop: &str, tier: Tier) -> u64 {
        match (prop, tier) {
            ("C10", Tier::Quick) => 40_000,
            ("C10", Tier::Thorough) => 4_000_000,
            ("C13", Tier::Quick) => 8_000,
            ("C13", Tier::Thorough) => 600_000,
            ("C09", Tier::Quick) => 800,
            ("C09", Tier::Thorough) => 40_000,
            (_, Tier::Quick) => 160,
            (_, Tier::Thorough) => 6_000,
        }
    }
    fn nontrivial_min_ops(&self, _prop: &str) -> u64 {
        4
    }
    fn assumptions(&self, prop: &str) -> Vec<String> {
        match prop {
            "C11" => vec![
                "iteration is compared for start keys that lie under the prefix (or no start / no prefix); for a start outside the prefix RocksDb documents 'return nothing' and MemoryStore differs — unspecified, reported as a statistic".into(),
                "the same (column,key) is never written twice inside one commit (both backends reject that as ConflictingChanges)".into(),
            ],
            "C12" => vec![
                "keys of one column have a fixed length (as all fuel-core tables do)".into(),
                "crash points are between two calls into the storage seam; RocksDB WriteBatch atomicity and WAL are trusted".into(),
                "commits without a height only happen before the first height (C09 enforces this for node databases)".into(),
            ],
            "C09" => vec![
                "a failed storage commit is treated as fatal by the node: after an injected lost-ack the harness reopens the database and accepts either the old or the durable height".into(),
                "the first committed height of a database is never rolled back".into(),
            ],
            "C10" => vec![
                "after an injected read error inside replace/take the key's pending state is unspecified by the property (tainted until overwritten)".into(),
                "after a rejected fail-on-conflict merge the run ends (commit consumes the transaction)".into(),
            ],
            "C13" => vec![
                "every table operation runs in its own storage transaction that is dropped on error (as the node does)".into(),
                "reference roots: independent RFC-6962 implementation in the harness (sha2)".into(),
            ],
            _ => vec![],
        }
    }
    fn run(&self, ctx: &mut Ctx) {
        match ctx.prop.as_str() {
            "C09" => height::run(ctx),
            "C10" => txmode::run(ctx),
            "C13" => merkle::run(ctx),
            _ => kv::run(ctx),
        }
    }
}

fn main() {
    // RocksDB directories live on tmpfs: fsync is free there and nothing is left on disk.
    let tmp = "/dev/shm/verif-w2";
    if std::fs::create_dir_all(tmp).is_ok() {
        // SAFETY: single-threaded at this point.
        unsafe { std::env::set_var("TMPDIR", tmp) };
    }
    simkit::cli::main_world(&Storage)
}
