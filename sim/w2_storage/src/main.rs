//! W2 storage — one history of commits / restarts / rollbacks applied to a reference model and
//! to the real storage layers of fuel-core. Modes (selected by the property under check):
//!   kv      C11, C12   all backends vs. sorted-map model; historical views and rollbacks
//!   height  C09        `Database<Description>` height linking over a fault-injecting store
//!   tx      C10        nested storage transactions vs. a stack-of-maps model
//!   merkle  C13        merklized block table vs. from-scratch binary Merkle roots

mod kv;

use simkit::{
    Ctx,
    Tier,
    World,
};

struct Storage;

impl World for Storage {
    fn name(&self) -> &'static str {
        "w2_storage"
    }
    fn properties(&self) -> Vec<&'static str> {
        vec!["C11", "C12"]
    }
    fn real_components(&self) -> Vec<&'static str> {
        vec![
            "fuel_core::state::in_memory::memory_store::MemoryStore",
            "fuel_core::state::rocks_db::RocksDb (real RocksDB in a temp dir)",
            "fuel_core::state::historical_rocksdb::HistoricalRocksDB + ViewAtHeight (all rewind policies)",
            "fuel_core_storage::iter::{iterator, keys_iterator}, changes iterator",
        ]
    }
    fn stubs(&self) -> Vec<&'static str> {
        vec![
            "file-system crash semantics below RocksDB (WriteBatch atomicity trusted; crash = drop of all handles between two calls, reopen of the directory)",
        ]
    }
    fn default_runs(&self, prop: &str, tier: Tier) -> u64 {
        match (prop, tier) {
            (_, Tier::Quick) => 400,
            (_, Tier::Thorough) => 20_000,
        }
    }
    fn nontrivial_min_ops(&self, _prop: &str) -> u64 {
        4
    }
    fn assumptions(&self, prop: &str) -> Vec<String> {
        match prop {
            "C11" => vec![
                "iteration is compared for start keys that lie under the prefix (or no start / no prefix); for a start outside the prefix RocksDb documents 'return nothing' and MemoryStore differs — unspecified, reported as a statistic".into(),
                "the same (column,key) is never written twice inside one commit (both backends reject that as ConflictingChanges)".into(),
            ],
            "C12" => vec![
                "keys of one column have a fixed length (as all fuel-core tables do)".into(),
                "crash points are between two calls into the storage seam; RocksDB WriteBatch atomicity and WAL are trusted".into(),
                "commits without a height only happen before the first height (C09 enforces this for node databases)".into(),
            ],
            _ => vec![],
        }
    }
    fn run(&self, ctx: &mut Ctx) {
        match ctx.prop.as_str() {
            "C11" | "C12" => kv::run(ctx),
            _ => kv::run(ctx),
        }
    }
}

fn main() {
    simkit::cli::main_world(&Storage)
}
