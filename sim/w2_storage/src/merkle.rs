//! merkle mode (C13) — the merklized `FuelBlocks` table (blueprint `Merklized`) driven by
//! tape-generated insert / replace / take / remove operations (single and batched), each inside
//! its own storage transaction over a fault-injecting base store (an injected error in the
//! middle of an operation drops the whole operation, as the node does). Reference: from-scratch
//! binary Merkle root (RFC-6962 hashing as used by fuel-merkle) over the block ids in insertion
//! order, implemented here independently.

use fuel_core_storage::{
    Error as StorageError,
    MerkleRootStorage,
    Result as StorageResult,
    StorageAsMut,
    StorageAsRef,
    StorageBatchMutate,
    column::Column,
    kv_store::{
        KeyValueInspect,
        StorageColumn,
        Value,
        WriteOperation,
    },
    tables::{
        FuelBlocks,
        merkle::{
            DenseMetadataKey,
            FuelBlockMerkleMetadata,
        },
    },
    transactional::{
        Changes,
        Modifiable,
        StorageTransaction,
        WriteTransaction,
    },
};
use fuel_core_types::{
    blockchain::block::CompressedBlock,
    fuel_types::BlockHeight,
    tai64::Tai64,
};
use sha2::{
    Digest,
    Sha256,
};
use simkit::Ctx;
use std::{
    cell::Cell,
    collections::BTreeMap,
    rc::Rc,
};

struct Base {
    map: BTreeMap<(u32, Vec<u8>), Vec<u8>>,
    /// fail the n-th read from now (0 = disarmed)
    fail_read_in: Rc<Cell<u32>>,
}

impl KeyValueInspect for Base {
    type Column = Column;
    fn get(&self, key: &[u8], column: Column) -> StorageResult<Option<Value>> {
        let n = self.fail_read_in.get();
        if n > 0 {
            self.fail_read_in.set(n - 1);
            if n == 1 {
                return Err(StorageError::Other(anyhow::anyhow!("injected read error")));
            }
        }
        Ok(self
            .map
            .get(&(column.id(), key.to_vec()))
            .map(|v| Value::from(v.as_slice())))
    }
}

impl Modifiable for Base {
    fn commit_changes(&mut self, changes: Changes) -> StorageResult<()> {
        for (c, ops) in changes {
            for (k, op) in ops {
                let k: Vec<u8> = k.into();
                match op {
                    WriteOperation::Insert(v) => {
                        self.map.insert((c, k), v.to_vec());
                    }
                    WriteOperation::Remove => {
                        self.map.remove(&(c, k));
                    }
                }
            }
        }
        Ok(())
    }
}

fn leaf(data: &[u8]) -> [u8; 32] {
    let mut h = Sha256::new();
    h.update([0u8]);
    h.update(data);
    h.finalize().into()
}
fn node(l: &[u8; 32], r: &[u8; 32]) -> [u8; 32] {
    let mut h = Sha256::new();
    h.update([1u8]);
    h.update(l);
    h.update(r);
    h.finalize().into()
}
/// RFC 6962 Merkle tree hash.
fn mth(leaves: &[[u8; 32]]) -> [u8; 32] {
    match leaves.len() {
        0 => Sha256::new().finalize().into(),
        1 => leaf(&leaves[0]),
        n => {
            let mut k = 1;
            while k * 2 < n {
                k *= 2;
            }
            node(&mth(&leaves[..k]), &mth(&leaves[k..]))
        }
    }
}

fn block_id_bytes(b: &CompressedBlock) -> [u8; 32] {
    let id: fuel_core_types::fuel_tx::Bytes32 = b.id().into();
    *id
}

fn make_block(height: u32, salt: u64) -> CompressedBlock {
    let mut b = CompressedBlock::default();
    b.header_mut().set_block_height(BlockHeight::from(height));
    b.header_mut().set_time(Tai64(salt));
    b.header_mut().recalculate_metadata();
    b
}

pub fn run(ctx: &mut Ctx) {
    let fail = Rc::new(Cell::new(0u32));
    let mut db = StorageTransaction::transaction(
        Base {
            map: BTreeMap::new(),
            fail_read_in: fail.clone(),
        },
        Default::default(),
        Default::default(),
    );
    // "direct" runs apply every operation straight to the table handle (no per-operation
    // transaction that is dropped on error): a rejected operation must not leave anything
    // behind by itself. Faults are off in these runs (a half-done operation is legitimate then).
    let direct = ctx.tape.chance(1, 3);
    let fault_pct = if direct { 0 } else { *ctx.tape.pick(&[0u64, 0, 5, 15]) };
    // model: insertion order of (height key, block id bytes)
    let mut order: Vec<(u32, [u8; 32])> = Vec::new();
    let mut salt = 0u64;
    let steps = 5 + ctx.tape.below(40);
    ctx.ev(format!("faults={fault_pct}% direct={direct}"));
    for _ in 0..steps {
        if ctx.failed() {
            return;
        }
        let existing: Vec<u32> = order.iter().map(|x| x.0).collect();
        let next = existing.iter().max().map(|m| m + 1).unwrap_or(0);
        let pick_key = |ctx: &mut Ctx| -> u32 {
            match ctx.tape.weighted(&[6, 3, 1]) {
                0 => next,
                1 if !existing.is_empty() => *ctx.tape.pick(&existing),
                _ => next + 1 + ctx.tape.choose(5) as u32,
            }
        };
        let inject = fault_pct > 0 && ctx.tape.chance(fault_pct, 100);
        let arm = if inject { 1 + ctx.tape.choose(12) as u32 } else { 0 };
        let op = ctx.tape.weighted(&[10, 4, 3, 3, 4, 2]);
        // every operation runs in its own transaction; on error the transaction is dropped
        let mut applied: Vec<(u32, [u8; 32])> = Vec::new();
        let mut expect_err = false;
        let desc;
        let res: Result<(), String> = {
            let mut tx = db.write_transaction();
            fail.set(arm);
            let r = match op {
                0 => {
                    let k = pick_key(ctx);
                    salt += 1;
                    let b = make_block(k, salt);
                    desc = format!("insert {k}");
                    if existing.contains(&k) {
                        expect_err = true;
                    } else {
                        applied.push((k, block_id_bytes(&b)));
                    }
                    tx.storage_as_mut::<FuelBlocks>()
                        .insert(&BlockHeight::from(k), &b)
                        .map_err(|e| e.to_string())
                }
                1 => {
                    let k = pick_key(ctx);
                    salt += 1;
                    let b = make_block(k, salt);
                    desc = format!("replace {k}");
                    if existing.contains(&k) {
                        expect_err = true;
                    } else {
                        applied.push((k, block_id_bytes(&b)));
                    }
                    tx.storage_as_mut::<FuelBlocks>()
                        .replace(&BlockHeight::from(k), &b)
                        .map(|_| ())
                        .map_err(|e| e.to_string())
                }
                2 => {
                    let k = pick_key(ctx);
                    desc = format!("remove {k}");
                    expect_err = existing.contains(&k);
                    tx.storage_as_mut::<FuelBlocks>()
                        .remove(&BlockHeight::from(k))
                        .map_err(|e| e.to_string())
                }
                3 => {
                    let k = pick_key(ctx);
                    desc = format!("take {k}");
                    expect_err = existing.contains(&k);
                    tx.storage_as_mut::<FuelBlocks>()
                        .take(&BlockHeight::from(k))
                        .map(|_| ())
                        .map_err(|e| e.to_string())
                }
                4 => {
                    // batch insert (init_storage on an empty table, insert_batch otherwise)
                    let n = 1 + ctx.tape.below(4);
                    let mut items = Vec::new();
                    let mut seen = existing.clone();
                    let mut nk = next;
                    for _ in 0..n {
                        let k = if ctx.tape.chance(1, 6) && !seen.is_empty() {
                            *ctx.tape.pick(&seen)
                        } else {
                            let k = nk;
                            nk += 1 + ctx.tape.choose(2) as u32;
                            k
                        };
                        salt += 1;
                        let b = make_block(k, salt);
                        if seen.contains(&k) {
                            expect_err = true;
                        }
                        seen.push(k);
                        items.push((BlockHeight::from(k), b));
                    }
                    if !expect_err {
                        for (k, b) in &items {
                            applied.push(((**k), block_id_bytes(&b)));
                        }
                    }
                    let use_init = existing.is_empty() && ctx.tape.coin();
                    desc = format!(
                        "{} {:?}",
                        if use_init { "init_storage" } else { "insert_batch" },
                        items.iter().map(|x| *x.0).collect::<Vec<u32>>()
                    );
                    let it = items.iter().map(|(k, b)| (k, b));
                    if use_init {
                        StorageBatchMutate::<FuelBlocks>::init_storage(&mut tx, it).map_err(|e| e.to_string())
                    } else {
                        StorageBatchMutate::<FuelBlocks>::insert_batch(&mut tx, it).map_err(|e| e.to_string())
                    }
                }
                _ => {
                    let n = 1 + ctx.tape.below(3);
                    let keys: Vec<BlockHeight> = (0..n).map(|_| BlockHeight::from(pick_key(ctx))).collect();
                    expect_err = keys.iter().any(|k| existing.contains(&**k));
                    desc = format!("remove_batch {:?}", keys.iter().map(|k| **k).collect::<Vec<u32>>());
                    StorageBatchMutate::<FuelBlocks>::remove_batch(&mut tx, keys.iter()).map_err(|e| e.to_string())
                }
            };
            let fired = arm > 0 && fail.get() == 0;
            fail.set(0);
            ctx.op(format!("{desc} inject_at={arm} fired={fired} -> {r:?}"));
            if fired {
                ctx.fault("base_read_error");
            }
            match r {
                Ok(()) => {
                    if fired {
                        // an injected read error was swallowed: the operation claims success
                        ctx.check("C13", "injected-read-error-swallowed", false, || {
                            format!("{desc}: a storage read failed but the operation returned Ok")
                        });
                    }
                    tx.commit().map(|_| ()).map_err(|e| e.to_string())
                }
                Err(e) => {
                    if direct && op <= 3 {
                        // (single operations only: a batch stops in the middle by design)
                        // whatever the rejected operation wrote stays, as if it had been
                        // applied to the table handle itself
                        let _ = tx.commit();
                    } else {
                        drop(tx);
                    }
                    if !fired {
                        Err(e)
                    } else {
                        Err(format!("injected: {e}"))
                    }
                }
            }
        };
        let injected_failure = matches!(&res, Err(e) if e.starts_with("injected"));
        if !injected_failure {
            match op {
                0 | 1 | 4 => {
                    ctx.check(
                        "C13",
                        if op == 0 { "insert-over-existing-accepted" } else { "replace-of-existing-accepted" },
                        !(expect_err && res.is_ok()),
                        || format!("{desc}: an already stored block was overwritten without error"),
                    );
                    ctx.check("C13", "fresh-insert-rejected", expect_err || res.is_ok(), || {
                        format!("{desc}: rejected although no key existed: {res:?}")
                    });
                }
                _ => {
                    ctx.check("C13", "removal-of-existing-accepted", !(expect_err && res.is_ok()), || {
                        format!("{desc}: removing a stored block succeeded")
                    });
                    ctx.check("C13", "removal-of-absent-rejected", expect_err || res.is_ok(), || {
                        format!("{desc}: rejected although no key existed: {res:?}")
                    });
                }
            }
        }
        if res.is_ok() && !expect_err {
            order.extend(applied);
        } else if res.is_ok() && expect_err {
            // a known finding let the run continue: resynchronise the model with what the
            // implementation did is not possible for roots; stop this run
            return;
        }
        // ---- the stored blocks are still there, unchanged ----
        for (k, id) in order.iter() {
            let got = db
                .storage_as_ref::<FuelBlocks>()
                .get(&BlockHeight::from(*k))
                .map(|b| b.map(|b| block_id_bytes(&b)));
            // statistic only: the property speaks about the recorded roots, and a rejected
            // `replace` is known to leave the new value behind in the caller's transaction
            if !matches!(&got, Ok(Some(g)) if g == id) {
                ctx.probe("stored_block_differs_after_rejected_op(info)");
            }
        }
        // ---- roots: every recorded root and the latest root ----
        let leaves: Vec<[u8; 32]> = order.iter().map(|x| x.1).collect();
        for (i, (k, _)) in order.iter().enumerate() {
            let want = mth(&leaves[..=i]);
            let got = MerkleRootStorage::<BlockHeight, FuelBlocks>::root(&db, &BlockHeight::from(*k));
            let ok = matches!(&got, Ok(r) if *r == want);
            ctx.check("C13", "recorded-root-wrong", ok, || {
                format!("root recorded for block key {k} (position {i}) is {got:?}, reference {}", hex(&want))
            });
            if !ok {
                return;
            }
        }
        let latest = db
            .storage_as_ref::<FuelBlockMerkleMetadata>()
            .get(&DenseMetadataKey::Latest)
            .map(|m| m.map(|m| (*m.root(), m.version())));
        match latest {
            Ok(Some((root, version))) => {
                ctx.check("C13", "latest-root-wrong", root == mth(&leaves) && version == leaves.len() as u64, || {
                    format!("latest root/version {} / {version}, reference {} / {}", hex(&root), hex(&mth(&leaves)), leaves.len())
                });
            }
            Ok(None) => {
                ctx.check("C13", "latest-root-missing", leaves.is_empty(), || "no latest metadata although blocks were inserted".into());
            }
            Err(e) => {
                ctx.check("C13", "latest-root-unreadable", false, || e.to_string());
            }
        }
    }
}

fn hex(b: &[u8]) -> String {
    b.iter().map(|x| format!("{x:02x}")).collect()
}
