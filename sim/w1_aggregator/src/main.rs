//! W1 aggregator monitor (C43).
//!
//! * Conversion half: every block of a chain built by the real producer / executor / importer,
//!   with the receipts of its transactions, goes fuel -> protobuf bytes (`ProtobufBlockConverter`)
//!   -> `fuel_block_from_protobuf` and must come back equal. This half is a pure function; the
//!   simulation only supplies realistic inputs (stated in the registration).
//! * Storage half: the real aggregator `Task` (`run` / `handle_block` / `restart_blocks_stream`)
//!   with the real `StorageDB` + `StorageBlocksProvider` + `SharedState` over a shared
//!   key-value "disk", stepped by the harness. Its two inputs are adversarial: the old-block
//!   source (the real `OldBlocksSource` over the chain's on-chain database, whose answers are
//!   then duplicated / shifted / shuffled / cut / replaced by errors) and the live importer
//!   stream (duplicates, gaps, old heights). The task is restarted, commits fail, and a second
//!   writer calls `StorageDB::store_block` with arbitrary heights.

use chainkit::spec::ChainSpec;
use fuel_core::combined_database::CombinedDatabase;
use fuel_core_block_aggregator_api::{
    block_range_response::BlockRangeResponse,
    blocks::{
        BlockSource,
        old_block_source::{
            BlockConverter,
            OldBlocksSource,
            TxReceipts,
            convertor_adapter::{
                ProtobufBlockConverter,
                proto_to_fuel_conversions::fuel_block_from_protobuf,
            },
        },
    },
    db::{
        BlocksStorage,
        storage_db::{
            StorageBlocksProvider,
            StorageDB,
        },
        table::{
            Blocks,
            Column,
            LatestBlock,
        },
    },
    protobuf_types::Block as ProtoBlock,
    result::{
        Error as AggError,
        Result as AggResult,
    },
    service::SharedState,
    task::Task,
};
use fuel_core_services::{
    RunnableTask,
    Service,
    State,
    StateWatcher,
    TaskNextAction,
    stream::IntoBoxStream,
};
use fuel_core_storage::{
    Result as StorageResult,
    StorageAsRef,
    kv_store::{
        KeyValueInspect,
        StorageColumn,
        Value,
        WriteOperation,
    },
    structured_storage::AsStructuredStorage,
    transactional::{
        AtomicView,
        Changes,
        Modifiable,
    },
};
use fuel_core_types::{
    blockchain::block::Block,
    fuel_tx::{
        Receipt,
        TxId,
    },
    fuel_types::BlockHeight,
};
use prost::Message;
use simkit::{
    Ctx,
    Tier,
    World,
};
use std::{
    collections::{
        BTreeMap,
        VecDeque,
    },
    sync::{
        Arc,
        Mutex,
    },
    time::Duration,
};
use tokio::sync::mpsc;
use w1_monitors::{
    chain::{
        Chain,
        ChainKnobs,
    },
    txgen_ext,
};

type Bytes = Arc<[u8]>;

// ---------------------------------------------------------------------------------------------
// the disk of the aggregator
// ---------------------------------------------------------------------------------------------

#[derive(Default)]
struct KvInner {
    map: BTreeMap<(u32, Vec<u8>), Value>,
    fail_next_commit: bool,
    lost_ack_next_commit: bool,
    fired: u64,
}

#[derive(Clone, Default, Debug)]
struct Kv(Arc<Mutex<KvInner>>);

impl std::fmt::Debug for KvInner {
    fn fmt(&self, f: &mut std::fmt::Formatter<'_>) -> std::fmt::Result {
        f.write_str("Kv")
    }
}

#[derive(Debug)]
struct KvSnapshot(BTreeMap<(u32, Vec<u8>), Value>);

impl KeyValueInspect for Kv {
    type Column = Column;
    fn get(&self, key: &[u8], column: Column) -> StorageResult<Option<Value>> {
        Ok(self.0.lock().unwrap().map.get(&(column.id(), key.to_vec())).cloned())
    }
}

impl KeyValueInspect for KvSnapshot {
    type Column = Column;
    fn get(&self, key: &[u8], column: Column) -> StorageResult<Option<Value>> {
        Ok(self.0.get(&(column.id(), key.to_vec())).cloned())
    }
}

impl Modifiable for Kv {
    fn commit_changes(&mut self, changes: Changes) -> StorageResult<()> {
        let mut g = self.0.lock().unwrap();
        if std::mem::take(&mut g.fail_next_commit) {
            g.fired += 1;
            return Err(anyhow::anyhow!("injected: commit failed, nothing written").into());
        }
        for (col, entries) in changes {
            for (k, op) in entries {
                let key: Vec<u8> = k.into();
                match op {
                    WriteOperation::Insert(v) => {
                        g.map.insert((col, key), v);
                    }
                    WriteOperation::Remove => {
                        g.map.remove(&(col, key));
                    }
                }
            }
        }
        if std::mem::take(&mut g.lost_ack_next_commit) {
            g.fired += 1;
            return Err(anyhow::anyhow!("injected: commit applied, acknowledgement lost").into());
        }
        Ok(())
    }
}

impl AtomicView for Kv {
    type LatestView = KvSnapshot;
    fn latest_view(&self) -> StorageResult<KvSnapshot> {
        Ok(KvSnapshot(self.0.lock().unwrap().map.clone()))
    }
}

// ---------------------------------------------------------------------------------------------
// ports
// ---------------------------------------------------------------------------------------------

/// `store_block` calls as the real `StorageDB` answered them.
#[derive(Clone, Debug)]
struct StoreCall {
    height: u32,
    current_before: Option<u32>,
    accepted: bool,
    who: &'static str,
}

struct RecordingStorage {
    inner: StorageDB<Kv>,
    calls: Arc<Mutex<Vec<StoreCall>>>,
    who: &'static str,
}

impl BlocksStorage for RecordingStorage {
    type Block = Bytes;
    type BlockRangeResponse = BlockRangeResponse;

    async fn store_block(&mut self, height: BlockHeight, block: &Bytes) -> AggResult<()> {
        let current_before = self.inner.get_current_height()?.map(|h| *h);
        let r = self.inner.store_block(height, block).await;
        self.calls.lock().unwrap().push(StoreCall {
            height: *height,
            current_before,
            accepted: r.is_ok(),
            who: self.who,
        });
        r
    }
}

#[derive(Clone, Default)]
struct ReceiptsPort(Arc<Mutex<BTreeMap<TxId, Vec<Receipt>>>>);

impl TxReceipts for ReceiptsPort {
    fn get_receipts(&self, tx_id: &TxId) -> AggResult<Vec<Receipt>> {
        Ok(self.0.lock().unwrap().get(tx_id).cloned().unwrap_or_default())
    }
}

/// What the old-block source does with the honest answer on its next call.
#[derive(Clone, Debug)]
enum SourceMode {
    Honest,
    /// the answer starts `k` heights later
    StartLate(u32),
    /// the answer starts `k` heights earlier
    StartEarly(u32),
    DuplicateEach,
    SkipIndex(usize),
    ErrorAt(usize),
    Empty,
    Reversed,
    /// stop after `k` blocks
    Cut(usize),
}

type RealSource = OldBlocksSource<ProtobufBlockConverter, fuel_core::database::Database, ReceiptsPort>;

struct SimSource {
    real: RealSource,
    modes: Arc<Mutex<VecDeque<SourceMode>>>,
    calls: Arc<Mutex<Vec<(u32, String)>>>,
}

impl BlockSource for SimSource {
    type Block = Bytes;

    fn blocks_starting_from(
        &self,
        block_height: BlockHeight,
    ) -> impl Iterator<Item = AggResult<(BlockHeight, Bytes)>> + Send + Sync + 'static {
        let mode = self.modes.lock().unwrap().pop_front().unwrap_or(SourceMode::Honest);
        self.calls.lock().unwrap().push((*block_height, format!("{mode:?}")));
        let from = match &mode {
            SourceMode::StartLate(k) => block_height.saturating_add(*k),
            SourceMode::StartEarly(k) => block_height.saturating_sub(*k),
            _ => *block_height,
        };
        let mut items: Vec<AggResult<(BlockHeight, Bytes)>> = self.real.blocks_starting_from(from.into()).collect();
        match mode {
            SourceMode::DuplicateEach => {
                let mut out = Vec::new();
                for it in items {
                    if let Ok((h, b)) = &it {
                        out.push(Ok((*h, b.clone())));
                    }
                    out.push(it);
                }
                items = out;
            }
            SourceMode::SkipIndex(i) => {
                if i < items.len() {
                    items.remove(i);
                }
            }
            SourceMode::ErrorAt(i) => {
                if i <= items.len() {
                    items.insert(i, Err(AggError::BlockSource(anyhow::anyhow!("injected: block source failed"))));
                }
            }
            SourceMode::Empty => items.clear(),
            SourceMode::Reversed => items.reverse(),
            SourceMode::Cut(k) => items.truncate(k),
            _ => {}
        }
        items.into_iter()
    }
}

struct ApiStub;

#[async_trait::async_trait]
impl Service for ApiStub {
    fn start(&self) -> anyhow::Result<()> {
        Ok(())
    }
    async fn start_and_await(&self) -> anyhow::Result<State> {
        Ok(State::Started)
    }
    async fn await_start_or_stop(&self) -> anyhow::Result<State> {
        Ok(State::Started)
    }
    fn stop(&self) -> bool {
        true
    }
    async fn stop_and_await(&self) -> anyhow::Result<State> {
        Ok(State::Stopped)
    }
    async fn await_stop(&self) -> anyhow::Result<State> {
        futures::future::pending().await
    }
    fn state(&self) -> State {
        State::Started
    }
    fn state_watcher(&self) -> StateWatcher {
        StateWatcher::started()
    }
}

type AggTask = Task<RecordingStorage, StorageBlocksProvider<Kv>, SimSource>;

// ---------------------------------------------------------------------------------------------
// the world
// ---------------------------------------------------------------------------------------------

struct Sim {
    spec: ChainSpec,
    chain: Chain,
    kv: Kv,
    receipts: ReceiptsPort,
    /// every block of the chain: (block, receipts per transaction, protobuf bytes)
    originals: BTreeMap<u32, (Block, Vec<Vec<Receipt>>, Bytes)>,
    task: Option<AggTask>,
    importer_tx: Option<mpsc::UnboundedSender<anyhow::Result<(BlockHeight, Bytes)>>>,
    modes: Arc<Mutex<VecDeque<SourceMode>>>,
    source_calls: Arc<Mutex<Vec<(u32, String)>>>,
    store_calls: Arc<Mutex<Vec<StoreCall>>>,
    checked_calls: usize,
    /// heights that the second writer filled with bytes of another block (before the chain got there)
    foreign: std::collections::BTreeSet<u32>,
    sync_from: u32,
    faults: bool,
}

fn receipts_of(result: &fuel_core_types::services::block_importer::ImportResult) -> Vec<Vec<Receipt>> {
    result.tx_status.iter().map(|s| s.result.receipts().to_vec()).collect()
}

impl Sim {
    fn current_height(&self) -> Option<u32> {
        StorageDB::new(self.kv.clone()).get_current_height().expect("harness: current height").map(|h| *h)
    }

    fn start_task(&mut self, ctx: &mut Ctx) {
        let (tx, rx) = mpsc::unbounded_channel();
        let source = SimSource {
            real: OldBlocksSource::new(
                Arc::new(ProtobufBlockConverter),
                self.chain.node.db.on_chain().clone(),
                self.receipts.clone(),
            ),
            modes: self.modes.clone(),
            calls: self.source_calls.clone(),
        };
        let storage = RecordingStorage {
            inner: StorageDB::new(self.kv.clone()),
            calls: self.store_calls.clone(),
            who: "task",
        };
        let shared = SharedState::new(
            StorageBlocksProvider::new(self.kv.clone()),
            64,
            "127.0.0.1:0".parse().unwrap(),
        );
        ctx.scope("C43");
        ctx.op(format!("aggregator task start current={:?} sync_from={}", self.current_height(), self.sync_from));
        let task = Task::new(
            self.sync_from.into(),
            Box::new(ApiStub),
            storage,
            shared,
            source,
            tokio_stream::wrappers::UnboundedReceiverStream::new(rx).into_boxed(),
        );
        self.task = Some(task);
        self.importer_tx = Some(tx);
    }

    /// Let the task take up to `n` steps of its run loop.
    async fn step_task(&mut self, ctx: &mut Ctx, n: usize) {
        for _ in 0..n {
            let Some(task) = self.task.as_mut() else { return };
            let mut watcher = StateWatcher::started();
            ctx.scope("C43");
            let r = tokio::time::timeout(Duration::from_millis(1), task.run(&mut watcher)).await;
            match r {
                Err(_) => {
                    // nothing to do right now
                    break;
                }
                Ok(TaskNextAction::Continue) => {}
                Ok(TaskNextAction::ErrorContinue(e)) => {
                    let _ = e;
                    ctx.ev("  task: error, continues");
                }
                Ok(TaskNextAction::Stop) => {
                    ctx.ev("  task: stopped");
                    self.task = None;
                    self.importer_tx = None;
                    break;
                }
            }
            self.check_storage(ctx);
            if ctx.failed() {
                return;
            }
        }
    }

    /// The oracle of the storage half.
    fn check_storage(&mut self, ctx: &mut Ctx) {
        // (a) every store_block call: accepted only as the next height (anything on an empty store)
        let calls: Vec<StoreCall> = self.store_calls.lock().unwrap()[self.checked_calls..].to_vec();
        self.checked_calls += calls.len();
        let fired = {
            let mut g = self.kv.0.lock().unwrap();
            std::mem::take(&mut g.fired)
        };
        if fired > 0 {
            ctx.fault("aggregator_commit_error");
        }
        for c in calls {
            let next = match c.current_before {
                None => true,
                Some(cur) => cur.checked_add(1) == Some(c.height),
            };
            ctx.ev(format!(
                "  store_block({}) by {} with current {:?} -> {}",
                c.height,
                c.who,
                c.current_before,
                if c.accepted { "ok" } else { "refused" }
            ));
            if c.accepted {
                ctx.check("C43", "store-accepted-noncontiguous", next, || {
                    format!("store_block({}) was accepted while the current height was {:?}", c.height, c.current_before)
                });
                if c.current_before.is_some() {
                    ctx.probe("next_height_stored");
                }
            } else if next && fired == 0 {
                ctx.check("C43", "store-refused-next-height", false, || {
                    format!("store_block({}) was refused although the current height was {:?} and no fault was injected", c.height, c.current_before)
                });
            } else if !next {
                ctx.probe("noncontiguous_height_refused");
            }
        }
        // (b) the stored range is contiguous and ends at the recorded latest height
        let snap = self.kv.latest_view().unwrap();
        let heights: Vec<u32> = snap
            .0
            .keys()
            .filter(|(c, _)| *c == Column::Blocks.id())
            .map(|(_, k)| u32::from_be_bytes(k.as_slice().try_into().expect("harness: block key")))
            .collect();
        let latest = snap
            .as_structured_storage()
            .storage_as_ref::<LatestBlock>()
            .get(&())
            .expect("harness: latest")
            .map(|m| *m.height());
        let contiguous = heights.windows(2).all(|w| w[1] == w[0] + 1);
        ctx.check("C43", "stored-range-not-contiguous", contiguous && latest == heights.last().copied(), || {
            format!("stored heights {heights:?}, recorded latest height {latest:?}")
        });
        // (c) what is stored for a height is that height's block
        for h in &heights {
            if self.foreign.contains(h) {
                continue;
            }
            let stored = snap
                .as_structured_storage()
                .storage_as_ref::<Blocks>()
                .get(&(*h).into())
                .expect("harness: block read")
                .map(|b| b.into_owned());
            if let (Some(stored), Some((_, _, want))) = (stored, self.originals.get(h)) {
                ctx.check("C43", "stored-block-differs", stored == *want, || {
                    format!("the bytes stored for height {h} are not the protobuf form of block {h}")
                });
            }
        }
    }

    /// C43 conversion half for one block.
    fn round_trip(&mut self, ctx: &mut Ctx, block: &Block, receipts: &[Vec<Receipt>]) -> Option<Bytes> {
        let h = **block.header().height();
        ctx.scope("C43");
        ctx.op(format!("convert block {h} txs={} receipts={}", block.transactions().len(), receipts.iter().map(|r| r.len()).sum::<usize>()));
        let bytes = match ProtobufBlockConverter.convert_block(block, receipts) {
            Ok(b) => b,
            Err(e) => {
                ctx.violate("C43", "conversion-failed", format!("fuel -> proto of block {h}: {e}"));
                return None;
            }
        };
        let proto = match ProtoBlock::decode(&*bytes) {
            Ok(p) => p,
            Err(e) => {
                ctx.violate("C43", "conversion-failed", format!("protobuf decoding of block {h}: {e}"));
                return None;
            }
        };
        match fuel_block_from_protobuf(proto) {
            Ok((b2, r2)) => {
                ctx.check("C43", "block-differs-after-round-trip", b2 == *block, || {
                    format!("block {h}: original {block:?}\n after fuel->proto->fuel {b2:?}")
                });
                ctx.check("C43", "receipts-differ-after-round-trip", r2 == receipts, || {
                    format!("block {h}: original receipts {receipts:?}\n after the round trip {r2:?}")
                });
            }
            Err(e) => {
                ctx.violate("C43", "conversion-failed", format!("proto -> fuel of block {h}: {e}"));
                return None;
            }
        }
        for r in receipts.iter().flatten() {
            ctx.probe(match r {
                Receipt::Call { .. } => "receipt_call",
                Receipt::Return { .. } => "receipt_return",
                Receipt::ReturnData { .. } => "receipt_return_data",
                Receipt::Panic { .. } => "receipt_panic",
                Receipt::Revert { .. } => "receipt_revert",
                Receipt::Log { .. } => "receipt_log",
                Receipt::LogData { .. } => "receipt_log_data",
                Receipt::Transfer { .. } => "receipt_transfer",
                Receipt::TransferOut { .. } => "receipt_transfer_out",
                Receipt::ScriptResult { .. } => "receipt_script_result",
                Receipt::MessageOut { .. } => "receipt_message_out",
                Receipt::Mint { .. } => "receipt_mint",
                Receipt::Burn { .. } => "receipt_burn",
            });
        }
        Some(bytes)
    }

    fn pick_mode(&self, ctx: &mut Ctx) -> SourceMode {
        match ctx.tape.weighted(&[6, 2, 2, 2, 2, 2, 1, 1, 2]) {
            0 => SourceMode::Honest,
            1 => SourceMode::StartLate(1 + ctx.tape.choose(2) as u32),
            2 => SourceMode::StartEarly(1 + ctx.tape.choose(2) as u32),
            3 => SourceMode::DuplicateEach,
            4 => SourceMode::SkipIndex(ctx.tape.below(3)),
            5 => SourceMode::ErrorAt(ctx.tape.below(3)),
            6 => SourceMode::Empty,
            7 => SourceMode::Reversed,
            _ => SourceMode::Cut(1 + ctx.tape.below(2)),
        }
    }
}

async fn world(ctx: &mut Ctx) {
    let faults = ctx.tape.choose(8) != 7;
    let blocks = 3 + ctx.tape.below(if ctx.tier == Tier::Thorough { 14 } else { 7 });
    let chain_knobs = ChainKnobs {
        max_cands: 2 + ctx.tape.choose(6),
        ext_weight: 2 + ctx.tape.choose(5),
        da_rate: 1 + ctx.tape.choose(4),
    };
    let mut spec = ChainSpec::generate(ctx);
    txgen_ext::extend_spec(ctx, &mut spec);
    ctx.ev(format!("faults={faults} blocks={blocks} spec {}", spec.describe()));
    let chain = Chain::genesis(&spec, CombinedDatabase::in_memory(), chain_knobs).await;
    let sync_from = ctx.tape.choose(3) as u32;
    let mut sim = Sim {
        spec,
        chain,
        kv: Kv::default(),
        receipts: Default::default(),
        originals: BTreeMap::new(),
        task: None,
        importer_tx: None,
        modes: Default::default(),
        source_calls: Default::default(),
        store_calls: Default::default(),
        checked_calls: 0,
        foreign: Default::default(),
        sync_from,
        faults,
    };
    let _ = &sim.spec;
    // the genesis block is block 0 of the aggregated range
    {
        use fuel_core_storage::transactional::AtomicView as _;
        let view = sim.chain.node.db.on_chain().latest_view().expect("harness: view");
        let g = view.get_sealed_block_by_height(&0u32.into()).expect("harness: genesis").expect("harness: genesis");
        if let Some(bytes) = sim.round_trip(ctx, &g.entity, &[]) {
            sim.originals.insert(0, (g.entity, vec![], bytes));
        }
    }
    sim.start_task(ctx);
    sim.step_task(ctx, 4).await;

    for _ in 0..blocks {
        if ctx.failed() {
            return;
        }
        let dt = 1 + ctx.tape.choose(10);
        let Some(c) = sim.chain.next_block(ctx, dt).await else {
            continue;
        };
        let block = c.sealed.entity.clone();
        let receipts = receipts_of(&c.result);
        {
            let chain_id = sim.chain.spec.params.chain_id();
            let mut g = sim.receipts.0.lock().unwrap();
            for (tx, r) in block.transactions().iter().zip(receipts.iter()) {
                use fuel_core_types::fuel_tx::UniqueIdentifier;
                g.insert(tx.id(&chain_id), r.clone());
            }
        }
        let Some(bytes) = sim.round_trip(ctx, &block, &receipts) else { return };
        sim.originals.insert(c.height, (block, receipts, bytes.clone()));
        if ctx.failed() {
            return;
        }
        // ---- faults around the aggregator ----
        if sim.faults {
            // what the old-block source will do on its next calls
            let n = ctx.tape.below(3);
            for _ in 0..n {
                let m = sim.pick_mode(ctx);
                if !matches!(m, SourceMode::Honest) {
                    ctx.fault("adversarial_block_source");
                }
                sim.modes.lock().unwrap().push_back(m);
            }
            if ctx.tape.chance(1, 8) {
                sim.kv.0.lock().unwrap().fail_next_commit = true;
            }
            if ctx.tape.chance(1, 12) {
                sim.kv.0.lock().unwrap().lost_ack_next_commit = true;
            }
            if ctx.tape.chance(1, 6) {
                ctx.fault("aggregator_restart");
                ctx.ev("  aggregator restart");
                sim.task = None;
                sim.importer_tx = None;
                sim.start_task(ctx);
            }
        }
        if sim.task.is_none() && ctx.tape.chance(2, 3) {
            sim.start_task(ctx);
        }
        // ---- the live stream ----
        if let Some(tx) = &sim.importer_tx {
            let tip = c.height;
            let feed: Vec<u32> = if !sim.faults {
                vec![tip]
            } else {
                match ctx.tape.weighted(&[6, 2, 2, 2, 1]) {
                    0 => vec![tip],
                    1 => vec![tip, tip],
                    2 => vec![],
                    3 => vec![ctx.tape.choose(tip as u64 + 1) as u32, tip],
                    _ => vec![tip, tip.saturating_sub(1)],
                }
            };
            if feed != vec![tip] {
                ctx.fault("adversarial_live_stream");
            }
            for h in feed {
                if let Some((_, _, b)) = sim.originals.get(&h) {
                    ctx.ev(format!("  live stream delivers {h}"));
                    let _ = tx.send(Ok((h.into(), b.clone())));
                }
            }
        }
        let steps = 3 + ctx.tape.below(8);
        sim.step_task(ctx, steps).await;
        if ctx.failed() {
            return;
        }
        // ---- a second writer calls the storage directly ----
        if sim.faults && ctx.tape.chance(1, 3) {
            let cur = sim.current_height();
            let h = match (cur, ctx.tape.choose(6)) {
                (Some(c), 0) => c,
                (Some(c), 1) => c.saturating_add(1),
                (Some(c), 2) => c.saturating_add(2),
                (Some(c), 3) => c.saturating_sub(1),
                (_, 4) => 0,
                _ => ctx.tape.choose(sim.chain.height() as u64 + 3) as u32,
            };
            let bytes = sim.originals.get(&h).map(|o| o.2.clone()).unwrap_or_else(|| bytes.clone());
            let mut direct = RecordingStorage {
                inner: StorageDB::new(sim.kv.clone()),
                calls: sim.store_calls.clone(),
                who: "direct",
            };
            ctx.scope("C43");
            ctx.op(format!("direct store_block({h}) current={cur:?}"));
            let r = direct.store_block(h.into(), &bytes).await;
            // a height beyond the chain tip got the bytes of another block: clause (c) is not about it
            // (also when the call reported an error: the commit may have been applied)
            let _ = r;
            if !sim.originals.contains_key(&h) {
                sim.foreign.insert(h);
            }
            sim.check_storage(ctx);
        }
    }
    if ctx.failed() {
        return;
    }
    // faults stop: an honest source and a restart bring the aggregator to the tip
    sim.modes.lock().unwrap().clear();
    {
        let mut g = sim.kv.0.lock().unwrap();
        g.fail_next_commit = false;
        g.lost_ack_next_commit = false;
    }
    sim.task = None;
    sim.start_task(ctx);
    sim.step_task(ctx, 4 * (blocks + 4)).await;
    if sim.current_height() == Some(sim.chain.height()) {
        ctx.probe("aggregator_caught_up_with_the_chain");
    }
    for (h, m) in sim.source_calls.lock().unwrap().iter() {
        let _ = (h, m);
        ctx.probe("old_block_source_calls");
    }
}

struct Aggregator;

impl World for Aggregator {
    fn name(&self) -> &'static str {
        "w1_aggregator"
    }
    fn properties(&self) -> Vec<&'static str> {
        vec!["C43"]
    }
    fn real_components(&self) -> Vec<&'static str> {
        vec![
            "fuel_core_block_aggregator_api convertor_adapter: ProtobufBlockConverter::convert_block (fuel_to_proto_conversions), fuel_block_from_protobuf (proto_to_fuel_conversions), prost encoding",
            "fuel_core_block_aggregator_api::task::Task (run, handle_block, restart_blocks_stream), service::SharedState, db::storage_db::{StorageDB::store_block, StorageBlocksProvider}, db::table::{Blocks, LatestBlock}",
            "fuel_core_block_aggregator_api::blocks::old_block_source::OldBlocksSource over the chain's real on-chain Database",
            "chain under observation: fuel_core_producer::Producer, upgradable Executor (native), Importer + PoA verifier, real genesis; receipts from the real execution",
        ]
    }
    fn stubs(&self) -> Vec<&'static str> {
        vec![
            "the aggregator's disk: shared in-memory key-value store implementing KeyValueInspect + Modifiable + AtomicView (commit error before apply, commit applied with lost acknowledgement)",
            "adversarial wrapper of the old-block source (late/early start, duplicates, gaps, reversed, cut, errors, empty) and adversarial live importer stream",
            "TxReceipts port (receipts recorded from the import results), gRPC API service (stub that never stops), second writer calling StorageDB::store_block directly",
            "transaction pool, DA layer, clocks of the chain",
        ]
    }
    fn default_runs(&self, _prop: &str, tier: Tier) -> u64 {
        match tier {
            // ~50 runs/s on 16 processes
            Tier::Quick => 2_000,
            Tier::Thorough => 100_000,
        }
    }
    fn nontrivial_min_ops(&self, _prop: &str) -> u64 {
        4
    }
    fn assumptions(&self, _prop: &str) -> Vec<String> {
        vec![
            "the conversion half is a pure function of (block, receipts); the simulation contributes realistic inputs only: blocks and receipts of generated scripts (calls, returns, reverts, panics, logs, message out, mint), creates, transfers, predicate and message spends; Upgrade / Upload / Blob transactions and V2 headers do not occur".into(),
            "storage clause: a store_block call may be accepted only when the store is empty or the height is current+1; the Blocks table holds a contiguous range ending at LatestBlock; the bytes stored for a height are that height's block".into(),
            "the Task is stepped through RunnableTask::run by the harness (one select branch per step) instead of running under ServiceRunner; the S3 / remote-cache storage variants are not exercised".into(),
        ]
    }
    fn run(&self, ctx: &mut Ctx) {
        let seed = ctx.tape.choose(u64::MAX);
        let rt = chainkit::runtime(seed);
        rt.block_on(world(ctx));
    }
}

fn main() {
    simkit::cli::main_world(&Aggregator)
}
