//! Tape-driven generation of chain state: the initial `StateConfig` of the first genesis and the
//! blocks that are applied on top of a node (written through fuel-core's real typed tables, so
//! the block Merkle tree, metadata and height bookkeeping are produced by the real storage code).

use fuel_core::{
    combined_database::CombinedDatabase,
    fuel_core_graphql_api::storage::{
        blocks::FuelBlockIdsToHeights,
        messages::SpentMessages,
        transactions::{
            OwnedTransactionIndexKey,
            OwnedTransactions,
            TransactionStatuses,
        },
    },
};
use fuel_core_chain_config::{
    BlobConfig,
    CoinConfig,
    ContractBalanceConfig,
    ContractConfig,
    ContractStateConfig,
    LastBlockConfig,
    MessageConfig,
    StateConfig,
    TableEntry,
};
use fuel_core_storage::{
    ContractsAssetKey,
    ContractsStateKey,
    StorageAsMut,
    tables::{
        Coins,
        ContractsAssets,
        ContractsLatestUtxo,
        ContractsRawCode,
        ContractsState,
        FuelBlocks,
        Messages,
        ProcessedTransactions,
        SealedBlockConsensus,
        Transactions,
    },
    transactional::WriteTransaction,
};
use fuel_core_types::{
    blockchain::{
        block::Block,
        consensus::{
            Consensus,
            poa::PoAConsensus,
        },
        header::{
            ApplicationHeader,
            ConsensusHeader,
            PartialBlockHeader,
        },
        primitives::{
            BlockId,
            DaBlockHeight,
            Empty,
        },
    },
    entities::{
        coins::coin::{
            CompressedCoin,
            CompressedCoinV1,
        },
        contract::ContractUtxoInfo,
        relayer::message::{
            Message,
            MessageV1,
        },
    },
    fuel_crypto::Signature,
    fuel_tx::{
        Output,
        Transaction,
        TxId,
        TxPointer,
        UniqueIdentifier,
        UtxoId,
        Witness,
        policies::Policies,
    },
    fuel_types::{
        Address,
        AssetId,
        BlobId,
        BlockHeight,
        Bytes32,
        ChainId,
        ContractId,
        Nonce,
        Salt,
    },
    fuel_vm::BlobData,
    services::transaction_status::TransactionExecutionStatus,
    tai64::Tai64,
};
use simkit::{
    Ctx,
    Tier,
};
use std::{
    collections::BTreeMap,
    sync::Arc,
};

#[derive(Clone, Default)]
pub struct ContractModel {
    pub code: Vec<u8>,
    pub utxo: UtxoId,
    pub tx_pointer: TxPointer,
    pub slots: BTreeMap<Bytes32, Vec<u8>>,
    pub balances: BTreeMap<AssetId, u64>,
}

/// What the harness knows about the lineage of nodes of one run.
#[derive(Clone, Default)]
pub struct Model {
    pub uniq: u64,
    pub coins: BTreeMap<UtxoId, CompressedCoin>,
    pub messages: BTreeMap<Nonce, Message>,
    pub blobs: BTreeMap<BlobId, Vec<u8>>,
    pub contracts: BTreeMap<ContractId, ContractModel>,
    pub processed: Vec<TxId>,
    /// ids of every block that was ever inserted into `FuelBlocks` of a node of this lineage,
    /// i.e. the leaves of the block Merkle tree.
    pub block_ids: Vec<BlockId>,
    pub height: u32,
    pub da_height: u64,
    pub cp_version: u32,
    pub stf_version: u32,
}

pub struct Sizes {
    pub coins: u64,
    pub messages: u64,
    pub blobs: u64,
    pub contracts: u64,
    pub big: u64,
    pub blocks: u64,
    pub ops: u64,
}

impl Sizes {
    pub fn of(tier: Tier) -> Self {
        match tier {
            Tier::Quick => Sizes { coins: 12, messages: 10, blobs: 4, contracts: 4, big: 26, blocks: 3, ops: 5 },
            Tier::Thorough => Sizes { coins: 40, messages: 30, blobs: 12, contracts: 8, big: 70, blocks: 5, ops: 8 },
        }
    }
}

fn expand(tag: u64, n: u64, v: u64) -> [u8; 32] {
    let mut r = simkit::Rng::new(
        tag.wrapping_mul(0x9E3779B97F4A7C15) ^ n.wrapping_mul(0xD6E8FEB86659FD93) ^ v.rotate_left(17),
    );
    let mut out = [0u8; 32];
    for c in out.chunks_mut(8) {
        c.copy_from_slice(&r.next().to_be_bytes());
    }
    out
}

pub const BASE_ASSET: [u8; 32] = [0u8; 32];

impl Model {
    /// A fresh 32-byte identifier: unique within the run (counter), shaped by the tape.
    pub fn id32(&mut self, ctx: &mut Ctx, tag: u64) -> [u8; 32] {
        self.uniq += 1;
        let v = ctx.tape.choose(1 << 16);
        let mut b = expand(tag, self.uniq, v);
        // a few identifiers get extreme first bytes so that they sort first / last in a table
        match ctx.tape.choose(12) {
            10 => b[0] = 0x00,
            11 => b[0] = 0xff,
            _ => {}
        }
        b
    }
    pub fn owner(ctx: &mut Ctx) -> Address {
        Address::from(expand(1, ctx.tape.choose(3), 0))
    }
    pub fn asset(ctx: &mut Ctx) -> AssetId {
        match ctx.tape.choose(3) {
            0 => AssetId::from(BASE_ASSET),
            k => AssetId::from(expand(2, k, 0)),
        }
    }
    pub fn amount(ctx: &mut Ctx) -> u64 {
        match ctx.tape.choose(6) {
            0 => ctx.tape.choose(1000),
            1 => 0,
            2 => u64::MAX,
            3 => u64::MAX - ctx.tape.choose(3),
            _ => ctx.tape.choose(1 << 40),
        }
    }
    pub fn blob(ctx: &mut Ctx, max: u64) -> Vec<u8> {
        let len = match ctx.tape.choose(5) {
            0 => 0,
            1 => 32,
            _ => ctx.tape.choose(max + 1),
        } as usize;
        let seed = ctx.tape.choose(1 << 16);
        let mut r = simkit::Rng::new(seed ^ 0xABCD);
        (0..len).map(|_| r.next() as u8).collect()
    }

    fn new_coin(&mut self, ctx: &mut Ctx, max_height: u32, at: Option<(u32, u16)>) -> (UtxoId, CompressedCoin) {
        let tx_id = Bytes32::from(self.id32(ctx, 10));
        let utxo = UtxoId::new(tx_id, ctx.tape.choose(4) as u16 * 13);
        let tx_pointer = match at {
            Some((h, i)) => TxPointer::new(h.into(), i),
            None => TxPointer::new(
                (ctx.tape.choose(max_height as u64 + 1) as u32).into(),
                ctx.tape.choose(3) as u16,
            ),
        };
        let coin = CompressedCoin::V1(CompressedCoinV1 {
            owner: Self::owner(ctx),
            amount: Self::amount(ctx),
            asset_id: Self::asset(ctx),
            tx_pointer,
        });
        (utxo, coin)
    }

    fn new_message(&mut self, ctx: &mut Ctx, max_da: u64) -> (Nonce, Message) {
        let nonce = Nonce::from(self.id32(ctx, 11));
        let retryable = ctx.tape.coin();
        let data = if retryable {
            let mut d = Self::blob(ctx, 40);
            if d.is_empty() {
                d.push(7);
            }
            d
        } else {
            vec![]
        };
        let msg = Message::V1(MessageV1 {
            sender: Self::owner(ctx),
            recipient: Self::owner(ctx),
            nonce,
            amount: Self::amount(ctx),
            data,
            da_height: DaBlockHeight(ctx.tape.choose(max_da + 1)),
        });
        (nonce, msg)
    }

    fn slot_key(&mut self, ctx: &mut Ctx, i: u64) -> Bytes32 {
        if ctx.tape.choose(3) == 0 {
            // small consecutive integers, the usual layout of contract storage
            let mut b = [0u8; 32];
            b[24..].copy_from_slice(&i.to_be_bytes());
            Bytes32::from(b)
        } else {
            Bytes32::from(self.id32(ctx, 12))
        }
    }

    fn new_contract(&mut self, ctx: &mut Ctx, sizes: &Sizes, max_height: u32, at: Option<(u32, u16)>) -> (ContractId, ContractModel) {
        let id = ContractId::from(self.id32(ctx, 13));
        let n_slots = match ctx.tape.choose(4) {
            0 => 0,
            1 | 2 => 1 + ctx.tape.choose(4),
            _ => 8 + ctx.tape.choose(sizes.big - 7), // spans several groups
        };
        let n_bal = match ctx.tape.choose(5) {
            0 => 0,
            1..=3 => 1 + ctx.tape.choose(3),
            _ => 8 + ctx.tape.choose(sizes.big - 7),
        };
        let mut c = ContractModel {
            code: Self::blob(ctx, 90),
            utxo: UtxoId::new(Bytes32::from(self.id32(ctx, 14)), ctx.tape.choose(3) as u16),
            tx_pointer: match at {
                Some((h, i)) => TxPointer::new(h.into(), i),
                None => TxPointer::new(
                    (ctx.tape.choose(max_height as u64 + 1) as u32).into(),
                    ctx.tape.choose(3) as u16,
                ),
            },
            ..Default::default()
        };
        for i in 0..n_slots {
            let k = self.slot_key(ctx, i);
            c.slots.insert(k, Self::blob(ctx, 40));
        }
        for i in 0..n_bal {
            let a = if i < 3 { Self::asset(ctx) } else { AssetId::from(self.id32(ctx, 15)) };
            c.balances.insert(a, Self::amount(ctx));
        }
        (id, c)
    }

    /// The state a brand-new chain starts from.
    pub fn initial(ctx: &mut Ctx, sizes: &Sizes) -> (Model, StateConfig) {
        let mut m = Model::default();
        let last_block = match ctx.tape.choose(3) {
            0 => None,
            k => Some(LastBlockConfig {
                block_height: (if k == 1 { ctx.tape.choose(5) } else { ctx.tape.choose(1 << 20) } as u32).into(),
                da_block_height: DaBlockHeight(ctx.tape.choose(50)),
                consensus_parameters_version: ctx.tape.choose(3) as u32,
                state_transition_version: ctx.tape.choose(3) as u32,
                blocks_root: Bytes32::from(m.id32(ctx, 20)),
            }),
        };
        // the first genesis block: height = last + 1 (or 0), da height = last da height (or 0)
        match &last_block {
            Some(l) => {
                m.height = u32::from(l.block_height) + 1;
                m.da_height = l.da_block_height.0;
                m.cp_version = l.consensus_parameters_version + 1;
                m.stf_version = l.state_transition_version + 1;
            }
            None => {
                m.height = 0;
                m.da_height = 0;
                m.cp_version = 0;
                // `ChainConfig::local_testnet()` sets `genesis_state_transition_version`
                m.stf_version = fuel_core_types::blockchain::header::LATEST_STATE_TRANSITION_VERSION;
            }
        }
        let n = ctx.tape.small(sizes.coins);
        for _ in 0..n {
            let (k, v) = m.new_coin(ctx, m.height, None);
            m.coins.insert(k, v);
        }
        let n = ctx.tape.small(sizes.messages);
        for _ in 0..n {
            let (k, v) = m.new_message(ctx, m.da_height);
            m.messages.insert(k, v);
        }
        let n = ctx.tape.small(sizes.blobs);
        for _ in 0..n {
            let id = BlobId::from(m.id32(ctx, 16));
            m.blobs.insert(id, Self::blob(ctx, 64));
        }
        let n = ctx.tape.small(sizes.contracts);
        for _ in 0..n {
            let (k, v) = m.new_contract(ctx, sizes, m.height, None);
            m.contracts.insert(k, v);
        }
        let cfg = m.as_state_config(ctx, last_block);
        (m, cfg)
    }

    /// `StateConfig` of the model; the order of the entries is shuffled by the tape (a hand
    /// written genesis file is not sorted).
    fn as_state_config(&self, ctx: &mut Ctx, last_block: Option<LastBlockConfig>) -> StateConfig {
        let mut coins: Vec<CoinConfig> = self
            .coins
            .iter()
            .map(|(k, v)| TableEntry::<Coins> { key: *k, value: v.clone() }.into())
            .collect();
        let mut messages: Vec<MessageConfig> = self
            .messages
            .iter()
            .map(|(k, v)| TableEntry::<Messages> { key: *k, value: v.clone() }.into())
            .collect();
        let mut blobs: Vec<BlobConfig> = self
            .blobs
            .iter()
            .map(|(k, v)| BlobConfig { blob_id: *k, payload: v.clone() })
            .collect();
        let mut contracts: Vec<ContractConfig> = self
            .contracts
            .iter()
            .map(|(id, c)| ContractConfig {
                contract_id: *id,
                code: c.code.clone(),
                tx_id: *c.utxo.tx_id(),
                output_index: c.utxo.output_index(),
                tx_pointer_block_height: c.tx_pointer.block_height(),
                tx_pointer_tx_idx: c.tx_pointer.tx_index(),
                states: c
                    .slots
                    .iter()
                    .map(|(k, v)| ContractStateConfig { key: *k, value: v.clone() })
                    .collect(),
                balances: c
                    .balances
                    .iter()
                    .map(|(a, v)| ContractBalanceConfig { asset_id: *a, amount: *v })
                    .collect(),
            })
            .collect();
        if ctx.tape.coin() {
            ctx.tape.shuffle(&mut coins);
            ctx.tape.shuffle(&mut messages);
            ctx.tape.shuffle(&mut blobs);
            ctx.tape.shuffle(&mut contracts);
        }
        StateConfig { coins, messages, blobs, contracts, last_block }
    }

    /// The model continues on the regenesis node: its genesis block sits on top of the old chain.
    ///
    /// `merkle_data_carried` is false for json snapshots, which do not contain the block Merkle
    /// tables (known finding of C39): the tree of the new node then starts with its genesis block.
    pub fn after_regenesis(&mut self, genesis_block_id: BlockId, merkle_data_carried: bool) {
        self.height += 1;
        self.cp_version += 1;
        self.stf_version += 1;
        if !merkle_data_carried {
            self.block_ids.clear();
        }
        self.block_ids.push(genesis_block_id);
    }

    /// Produce one block on top of `db` (which must be at `self.height`): a handful of generated
    /// state transitions, written in one on-chain and one off-chain commit through the typed
    /// tables of fuel-core.
    pub fn apply_block(&mut self, ctx: &mut Ctx, sizes: &Sizes, db: &CombinedDatabase, chain_id: &ChainId) {
        let h = self.height + 1;
        self.da_height += ctx.tape.choose(3);
        let da = self.da_height;
        let n_ops = ctx.tape.choose(sizes.ops + 1);
        let mut on = db.on_chain().clone();
        let mut off = db.off_chain().clone();
        let mut on_tx = on.write_transaction();
        let mut off_tx = off.write_transaction();
        let mut txs: Vec<Transaction> = Vec::new();
        let mut desc: Vec<String> = Vec::new();
        for op_i in 0..n_ops {
            let tx_idx = txs.len() as u16;
            let kind = ctx.tape.weighted(&[3, 2, 2, 2, 3, 2, 1, 1]);
            let mut outputs: Vec<Output> = vec![];
            let mut create: Option<(Salt, Vec<u8>, ContractId)> = None;
            match kind {
                0 => {
                    let (k, v) = self.new_coin(ctx, h, Some((h, tx_idx)));
                    on_tx.storage_as_mut::<Coins>().insert(&k, &v).expect("insert coin");
                    outputs.push(Output::coin(*v.owner(), *v.amount(), *v.asset_id()));
                    self.coins.insert(k, v);
                    desc.push("coin+".into());
                }
                1 if !self.coins.is_empty() => {
                    let i = ctx.tape.below(self.coins.len());
                    let k = *self.coins.keys().nth(i).unwrap();
                    on_tx.storage_as_mut::<Coins>().remove(&k).expect("remove coin");
                    self.coins.remove(&k);
                    desc.push("coin-".into());
                }
                2 => {
                    let (k, v) = self.new_message(ctx, da);
                    on_tx.storage_as_mut::<Messages>().insert(&k, &v).expect("insert message");
                    self.messages.insert(k, v);
                    desc.push("msg+".into());
                }
                3 if !self.messages.is_empty() => {
                    let i = ctx.tape.below(self.messages.len());
                    let k = *self.messages.keys().nth(i).unwrap();
                    on_tx.storage_as_mut::<Messages>().remove(&k).expect("remove message");
                    off_tx.storage_as_mut::<SpentMessages>().insert(&k, &()).expect("spent message");
                    self.messages.remove(&k);
                    desc.push("msg-".into());
                }
                4 if !self.contracts.is_empty() => {
                    let i = ctx.tape.below(self.contracts.len());
                    let id = *self.contracts.keys().nth(i).unwrap();
                    let n = 1 + ctx.tape.choose(4);
                    for j in 0..n {
                        let existing = self.contracts[&id].slots.len();
                        let pick_existing = existing > 0 && ctx.tape.coin();
                        let key = if pick_existing {
                            let q = ctx.tape.below(existing);
                            *self.contracts[&id].slots.keys().nth(q).unwrap()
                        } else {
                            self.slot_key(ctx, 1000 + j)
                        };
                        let sk = ContractsStateKey::new(&id, &key);
                        if pick_existing && ctx.tape.choose(3) == 0 {
                            on_tx.storage_as_mut::<ContractsState>().remove(&sk).expect("remove slot");
                            self.contracts.get_mut(&id).unwrap().slots.remove(&key);
                        } else {
                            let v = Self::blob(ctx, 40);
                            on_tx.storage_as_mut::<ContractsState>().insert(&sk, v.as_slice()).expect("insert slot");
                            self.contracts.get_mut(&id).unwrap().slots.insert(key, v);
                        }
                    }
                    self.touch_contract(ctx, &mut on_tx, id, h, tx_idx);
                    desc.push(format!("slots*{n}"));
                }
                5 if !self.contracts.is_empty() => {
                    let i = ctx.tape.below(self.contracts.len());
                    let id = *self.contracts.keys().nth(i).unwrap();
                    let existing = self.contracts[&id].balances.len();
                    let pick_existing = existing > 0 && ctx.tape.coin();
                    let asset = if pick_existing {
                        let q = ctx.tape.below(existing);
                        *self.contracts[&id].balances.keys().nth(q).unwrap()
                    } else {
                        Self::asset(ctx)
                    };
                    let ak = ContractsAssetKey::new(&id, &asset);
                    if pick_existing && ctx.tape.choose(3) == 0 {
                        on_tx.storage_as_mut::<ContractsAssets>().remove(&ak).expect("remove balance");
                        self.contracts.get_mut(&id).unwrap().balances.remove(&asset);
                    } else {
                        let v = Self::amount(ctx);
                        on_tx.storage_as_mut::<ContractsAssets>().insert(&ak, &v).expect("insert balance");
                        self.contracts.get_mut(&id).unwrap().balances.insert(asset, v);
                    }
                    self.touch_contract(ctx, &mut on_tx, id, h, tx_idx);
                    desc.push("bal".into());
                }
                6 => {
                    let (id, c) = self.new_contract(ctx, sizes, h, Some((h, tx_idx)));
                    on_tx.storage_as_mut::<ContractsRawCode>().insert(&id, c.code.as_slice()).expect("insert code");
                    on_tx
                        .storage_as_mut::<ContractsLatestUtxo>()
                        .insert(&id, &ContractUtxoInfo::V1((c.utxo, c.tx_pointer).into()))
                        .expect("insert utxo");
                    for (k, v) in &c.slots {
                        on_tx
                            .storage_as_mut::<ContractsState>()
                            .insert(&ContractsStateKey::new(&id, k), v.as_slice())
                            .expect("insert slot");
                    }
                    for (a, v) in &c.balances {
                        on_tx
                            .storage_as_mut::<ContractsAssets>()
                            .insert(&ContractsAssetKey::new(&id, a), v)
                            .expect("insert balance");
                    }
                    let salt = Salt::from(self.id32(ctx, 17));
                    create = Some((salt, c.code.clone(), id));
                    self.contracts.insert(id, c);
                    desc.push("contract+".into());
                }
                7 => {
                    let id = BlobId::from(self.id32(ctx, 16));
                    let payload = Self::blob(ctx, 64);
                    on_tx.storage_as_mut::<BlobData>().insert(&id, payload.as_slice()).expect("insert blob");
                    self.blobs.insert(id, payload);
                    desc.push("blob+".into());
                }
                _ => {
                    desc.push("noop".into());
                }
            }
            // the transaction that "did" it
            let tx: Transaction = match create {
                Some((salt, code, id)) => {
                    outputs.push(Output::contract_created(id, Bytes32::zeroed()));
                    Transaction::create(0, Policies::new(), salt, vec![], vec![], outputs, vec![Witness::from(code)]).into()
                }
                None => Transaction::script(
                    ctx.tape.choose(1000),
                    vec![op_i as u8, 0x24],
                    self.id32(ctx, 18)[..(ctx.tape.choose(20) as usize)].to_vec(),
                    Policies::new(),
                    vec![],
                    outputs,
                    vec![],
                )
                .into(),
            };
            let id = tx.id(chain_id);
            on_tx.storage_as_mut::<Transactions>().insert(&id, &tx).expect("insert tx");
            on_tx.storage_as_mut::<ProcessedTransactions>().insert(&id, &()).expect("insert processed");
            self.processed.push(id);
            let time = Tai64(4611686018427387914 + h as u64);
            let status = if ctx.tape.choose(4) == 0 {
                TransactionExecutionStatus::Failed {
                    block_height: h.into(),
                    time,
                    result: None,
                    receipts: Arc::new(vec![]),
                    total_gas: ctx.tape.choose(1000),
                    total_fee: ctx.tape.choose(1000),
                }
            } else {
                TransactionExecutionStatus::Success {
                    block_height: h.into(),
                    time,
                    result: None,
                    receipts: Arc::new(vec![]),
                    total_gas: ctx.tape.choose(1000),
                    total_fee: ctx.tape.choose(1000),
                }
            };
            off_tx.storage_as_mut::<TransactionStatuses>().insert(&id, &status).expect("insert status");
            let owner = Self::owner(ctx);
            off_tx
                .storage_as_mut::<OwnedTransactions>()
                .insert(&OwnedTransactionIndexKey::new(&owner, h.into(), tx_idx), &id)
                .expect("insert owned tx");
            txs.push(tx);
        }
        let prev_root = {
            use fuel_core_storage::{
                StorageAsRef,
                tables::merkle::{
                    DenseMetadataKey,
                    FuelBlockMerkleMetadata,
                },
            };
            db.on_chain()
                .storage::<FuelBlockMerkleMetadata>()
                .get(&DenseMetadataKey::Primary(BlockHeight::from(self.height)))
                .expect("merkle metadata")
                .map(|m| *m.root())
                .unwrap_or_default()
        };
        let header = PartialBlockHeader {
            application: ApplicationHeader::<Empty> {
                da_height: DaBlockHeight(da),
                consensus_parameters_version: self.cp_version,
                state_transition_bytecode_version: self.stf_version,
                generated: Empty,
            },
            consensus: ConsensusHeader::<Empty> {
                prev_root: Bytes32::from(prev_root),
                height: h.into(),
                time: Tai64(4611686018427387914 + h as u64),
                generated: Empty,
            },
        };
        let n_tx = txs.len();
        let block = Block::new(header, txs, &[], Bytes32::zeroed()).expect("valid block");
        let compressed = block.compress(chain_id);
        let block_id = block.id();
        let sig = {
            let mut s = [0u8; 64];
            s[..32].copy_from_slice(&self.id32(ctx, 19));
            Signature::from_bytes(s)
        };
        on_tx.storage_as_mut::<FuelBlocks>().insert(&h.into(), &compressed).expect("insert block");
        on_tx
            .storage_as_mut::<SealedBlockConsensus>()
            .insert(&h.into(), &Consensus::PoA(PoAConsensus::new(sig)))
            .expect("insert consensus");
        off_tx
            .storage_as_mut::<FuelBlockIdsToHeights>()
            .insert(&block_id, &h.into())
            .expect("insert block id");
        ctx.op(format!("block h={h} da={da} txs={n_tx} [{}]", desc.join(",")));
        on_tx.commit().expect("harness: on-chain commit of a generated block");
        off_tx.commit().expect("harness: off-chain commit of a generated block");
        self.height = h;
        self.block_ids.push(block_id);
    }

    fn touch_contract<S>(&mut self, ctx: &mut Ctx, on_tx: &mut S, id: ContractId, h: u32, tx_idx: u16)
    where
        S: fuel_core_storage::StorageMutate<ContractsLatestUtxo, Error = fuel_core_storage::Error>,
    {
        let utxo = UtxoId::new(Bytes32::from(self.id32(ctx, 14)), ctx.tape.choose(3) as u16);
        let tp = TxPointer::new(h.into(), tx_idx);
        on_tx
            .storage_as_mut::<ContractsLatestUtxo>()
            .insert(&id, &ContractUtxoInfo::V1((utxo, tp).into()))
            .expect("update utxo");
        let c = self.contracts.get_mut(&id).unwrap();
        c.utxo = utxo;
        c.tx_pointer = tp;
    }
}
