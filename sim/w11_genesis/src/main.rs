//! W11 genesis — snapshot export, regenesis and interrupted / resumed genesis import.
//!
//! Real: `Exporter::write_full_snapshot`, `SnapshotWriter` / `SnapshotReader` (json and parquet),
//! `execute_genesis_block` -> `SnapshotImporter` (all on-chain and off-chain `ImportTable`
//! handlers, `ImportTask`, `TaskManager`, genesis progress), the genesis block commit through the
//! real `Importer`, `CombinedDatabase` / `Database` / `GenesisDatabase` over the real
//! `MemoryStore` or RocksDB. Simulated: the state generator, the storage seam under the
//! databases (read / commit faults, process death), the state watcher (cancellation), restarts.
//!
//! C39: source node vs. node started from its exported snapshot (fault-free configuration).
//! C40: the same snapshot imported with up to 4 tape-chosen interruptions and restarts vs. the
//!      uninterrupted import; per (table, group) commit accounting at the seam.

mod model;
mod store;

use fuel_core::{
    combined_database::CombinedDatabase,
    database::{
        Database,
        database_description::{
            DatabaseDescription,
            off_chain::OffChain,
            on_chain::OnChain,
        },
        genesis_progress::GenesisMetadata,
    },
    service::{
        Config,
        adapters::block_importer::NoopBlockReconciliationWriteAdapter,
        genesis::{
            Exporter,
            execute_genesis_block,
        },
    },
    state::{
        TransactableStorage,
        historical_rocksdb::{
            HistoricalRocksDB,
            StateRewindPolicy,
        },
        in_memory::memory_store::MemoryStore,
        rocks_db::DatabaseConfig,
    },
};
use fuel_core_chain_config::{
    ChainConfig,
    SnapshotMetadata,
    SnapshotReader,
    SnapshotWriter,
    ZstdCompressionLevel,
};
use fuel_core_importer::ports::{
    MockBlockVerifier,
    MockValidator,
};
use fuel_core_services::{
    State,
    StateWatcher,
};
use fuel_core_storage::{
    StorageAsRef,
    iter::{
        IterDirection,
        IterableStore,
    },
    kv_store::StorageColumn,
    structured_storage::TableWithBlueprint,
    tables::{
        FuelBlocks,
        merkle::{
            DenseMetadataKey,
            FuelBlockMerkleMetadata,
        },
    },
    transactional::HistoricalView,
};
use fuel_core_types::{
    blockchain::primitives::BlockId,
    fuel_merkle::binary::in_memory::MerkleTree,
    fuel_types::{
        BlockHeight,
        ChainId,
    },
};
use model::{
    Model,
    Sizes,
};
use simkit::{
    Ctx,
    Fnv,
    Tier,
    World,
};
use std::{
    collections::{
        BTreeMap,
        BTreeSet,
    },
    path::{
        Path,
        PathBuf,
    },
    sync::Arc,
};
use store::{
    Ctl,
    Db,
    Fault,
    GroupId,
    Seam,
};
use tokio::sync::watch;

type Raw = Vec<(Vec<u8>, Vec<u8>)>;

enum DiskOf<D: DatabaseDescription> {
    Mem(Arc<MemoryStore<D>>),
    Rocks(PathBuf),
}

impl<D: DatabaseDescription> DiskOf<D> {
    fn open(&self) -> Arc<dyn TransactableStorage<D::Height, Column = D::Column>> {
        match self {
            DiskOf::Mem(m) => m.clone(),
            DiskOf::Rocks(p) => Arc::new(
                HistoricalRocksDB::<D>::default_open(
                    p,
                    StateRewindPolicy::NoRewind,
                    DatabaseConfig::config_for_tests(),
                )
                .expect("harness: open rocksdb"),
            ),
        }
    }
}

/// One node: what survives a restart (`on`, `off`: the disks; `ctl`: the harness' observer) and
/// what does not (`db` and everything built on it).
struct Node {
    _tmp: Option<tempfile::TempDir>,
    on: DiskOf<OnChain>,
    off: DiskOf<OffChain>,
    ctl: Arc<Ctl>,
    on_seam: Option<Arc<Seam<OnChain>>>,
    off_seam: Option<Arc<Seam<OffChain>>>,
    db: Option<CombinedDatabase>,
    rocks: bool,
}

impl Node {
    fn new(rocks: bool) -> Node {
        let ctl = Arc::new(Ctl {
            inner: Default::default(),
            on_progress_column: GenesisMetadata::<OnChain>::column().id(),
            off_progress_column: GenesisMetadata::<OffChain>::column().id(),
            on_blocks_column: FuelBlocks::column().id(),
        });
        let (tmp, on, off) = if rocks {
            let t = new_tempdir();
            let on = t.path().join("on");
            let off = t.path().join("off");
            std::fs::create_dir_all(&on).expect("harness: mkdir");
            std::fs::create_dir_all(&off).expect("harness: mkdir");
            (Some(t), DiskOf::Rocks(on), DiskOf::Rocks(off))
        } else {
            (
                None,
                DiskOf::Mem(Arc::new(MemoryStore::<OnChain>::default())),
                DiskOf::Mem(Arc::new(MemoryStore::<OffChain>::default())),
            )
        };
        let mut n = Node { _tmp: tmp, on, off, ctl, on_seam: None, off_seam: None, db: None, rocks };
        n.open();
        n
    }

    /// Process start: build the database objects over the disks.
    fn open(&mut self) {
        let t0 = std::time::Instant::now();
        let on_seam = Arc::new(Seam::<OnChain> { inner: self.on.open(), db: Db::On, ctl: self.ctl.clone() });
        let off_seam = Arc::new(Seam::<OffChain> { inner: self.off.open(), db: Db::Off, ctl: self.ctl.clone() });
        self.db = Some(CombinedDatabase::new(
            Database::<OnChain>::new(on_seam.clone()),
            Database::<OffChain>::new(off_seam.clone()),
            Database::in_memory(),
            Database::in_memory(),
            Database::in_memory(),
        ));
        self.on_seam = Some(on_seam);
        self.off_seam = Some(off_seam);
        timing(if self.rocks { "open node (rocksdb)" } else { "open node (memory)" }, t0);
    }

    /// Process end: every in-memory object goes away, only the disks stay.
    fn close(&mut self) {
        self.db = None;
        self.on_seam = None;
        self.off_seam = None;
    }

    /// A new process over the same disks (RocksDB is closed and opened again).
    fn restart(&mut self) {
        self.close();
        self.open();
    }

    fn db(&self) -> &CombinedDatabase {
        self.db.as_ref().expect("harness: node is open")
    }

    fn dump_on(&self, col: <OnChain as DatabaseDescription>::Column) -> Raw {
        dump(self.on_seam.as_ref().expect("open").as_ref(), col)
    }
    fn dump_off(&self, col: <OffChain as DatabaseDescription>::Column) -> Raw {
        dump(self.off_seam.as_ref().expect("open").as_ref(), col)
    }

    /// Digest of every column except the database metadata (whose encoding contains a `HashSet`).
    fn digest(&self) -> (u64, u64) {
        let mut a = Fnv::default();
        for col in enum_iterator::all::<<OnChain as DatabaseDescription>::Column>() {
            if col.id() == OnChain::metadata_column().id() {
                continue;
            }
            for (k, v) in self.dump_on(col) {
                a.write(&col.id().to_be_bytes());
                a.write(&(k.len() as u32).to_be_bytes());
                a.write(&k);
                a.write(&v);
            }
        }
        let mut b = Fnv::default();
        for col in enum_iterator::all::<<OffChain as DatabaseDescription>::Column>() {
            if col.id() == OffChain::metadata_column().id() {
                continue;
            }
            for (k, v) in self.dump_off(col) {
                b.write(&col.id().to_be_bytes());
                b.write(&(k.len() as u32).to_be_bytes());
                b.write(&k);
                b.write(&v);
            }
        }
        (a.0, b.0)
    }

    /// Progress entries currently on disk: (db, migration name) -> last handled group.
    fn progress(&self) -> BTreeMap<(Db, String), usize> {
        let mut out = BTreeMap::new();
        for (db, raw) in [
            (Db::On, self.dump_on(GenesisMetadata::<OnChain>::column())),
            (Db::Off, self.dump_off(GenesisMetadata::<OffChain>::column())),
        ] {
            for (k, v) in raw {
                let name: String = postcard::from_bytes(&k).expect("harness: progress key");
                let idx: u64 = postcard::from_bytes(&v).expect("harness: progress value");
                out.insert((db, name), idx as usize);
            }
        }
        out
    }
}

fn dump<S: IterableStore>(s: &S, col: S::Column) -> Raw {
    s.iter_store(col, None, None, IterDirection::Forward)
        .map(|r| {
            let (k, v) = r.expect("harness: iteration of a store");
            (k, v.to_vec())
        })
        .collect()
}

fn hex(b: &[u8]) -> String {
    let mut s = String::new();
    for x in b.iter().take(40) {
        s.push_str(&format!("{x:02x}"));
    }
    if b.len() > 40 {
        s.push_str("..");
    }
    s
}

/// First difference between two raw tables, rendered.
fn first_diff(a: &Raw, b: &Raw) -> Option<String> {
    let ma: BTreeMap<&Vec<u8>, &Vec<u8>> = a.iter().map(|(k, v)| (k, v)).collect();
    let mb: BTreeMap<&Vec<u8>, &Vec<u8>> = b.iter().map(|(k, v)| (k, v)).collect();
    for (k, v) in &ma {
        match mb.get(*k) {
            None => return Some(format!("key {} only in the first ({} vs {} entries)", hex(k), a.len(), b.len())),
            Some(v2) if v2 != v => return Some(format!("key {}: value {} vs {}", hex(k), hex(v), hex(v2))),
            _ => {}
        }
    }
    for k in mb.keys() {
        if !ma.contains_key(*k) {
            return Some(format!("key {} only in the second ({} vs {} entries)", hex(k), a.len(), b.len()));
        }
    }
    None
}

#[derive(Clone, Copy, PartialEq, Eq, Debug)]
enum Enc {
    Json,
    Parquet(ZstdCompressionLevel),
}

/// One current-thread runtime per process: the simulation thread drives every future; the
/// blocking pool (export tasks, import tasks of tables with >= 10 groups) keeps its threads
/// between attempts and runs.
fn rt() -> &'static tokio::runtime::Runtime {
    static RT: std::sync::OnceLock<tokio::runtime::Runtime> = std::sync::OnceLock::new();
    RT.get_or_init(|| {
        tokio::runtime::Builder::new_current_thread()
            .enable_time()
            .thread_keep_alive(std::time::Duration::from_secs(120))
            .build()
            .expect("harness: tokio runtime")
    })
}

/// Debug aid (`W11_TIMING=1`): wall time of the phases on stderr; never used for decisions.
fn timing(label: &str, t0: std::time::Instant) {
    static ON: std::sync::OnceLock<bool> = std::sync::OnceLock::new();
    if *ON.get_or_init(|| std::env::var("W11_TIMING").is_ok()) {
        let threads = std::fs::read_to_string("/proc/self/status")
            .ok()
            .and_then(|s| s.lines().find(|l| l.starts_with("Threads:")).map(|l| l.to_string()))
            .unwrap_or_default();
        eprintln!("[timing] {label}: {:?} {threads}", t0.elapsed());
    }
}

/// Snapshot and RocksDB directories live on tmpfs when there is one (less I/O cost per run).
fn new_tempdir() -> tempfile::TempDir {
    let shm = Path::new("/dev/shm");
    if shm.is_dir() {
        if let Ok(d) = tempfile::Builder::new().prefix("w11-").tempdir_in(shm) {
            return d;
        }
    }
    tempfile::TempDir::new().expect("harness: tempdir")
}

fn chain_config() -> ChainConfig {
    ChainConfig::local_testnet()
}

fn export(db: &CombinedDatabase, dir: &Path, enc: Enc, group_size: usize) -> anyhow::Result<()> {
    let d = dir.to_path_buf();
    let writer = move || match enc {
        Enc::Json => Ok(SnapshotWriter::json(d.clone())),
        Enc::Parquet(level) => SnapshotWriter::parquet(d.clone(), level),
    };
    let exporter = Exporter::new(db.clone(), chain_config(), writer, group_size, StateWatcher::default());
    let t0 = std::time::Instant::now();
    let r = rt().block_on(exporter.write_full_snapshot());
    timing("export", t0);
    r
}

fn open_config(dir: &Path, json_group_size: usize) -> anyhow::Result<Config> {
    let meta = SnapshotMetadata::read(dir)?;
    let reader = SnapshotReader::open_w_config(meta, json_group_size)?;
    Ok(Config::local_node_with_reader(reader))
}

/// What `execute_and_commit_genesis_block` does, with our own state watcher.
async fn genesis(watcher: StateWatcher, config: &Config, db: &CombinedDatabase) -> anyhow::Result<()> {
    let result = execute_genesis_block(watcher, config, db).await?;
    let importer = fuel_core_importer::Importer::new(
        config.snapshot_reader.chain_config().consensus_parameters.chain_id(),
        config.block_importer.clone(),
        db.on_chain().clone(),
        MockValidator::default(),
        MockBlockVerifier::default(),
        NoopBlockReconciliationWriteAdapter,
    );
    importer.commit_result(result).await?;
    Ok(())
}

/// One run of the node process over `node`'s disks: start, genesis import, process end.
/// Afterwards the process is dead (blocking import workers that are still running when the import
/// returns an error cannot write any more; they are joined and every database object is gone);
/// only the seams stay so that the harness can look at the disks. `Node::restart` starts the next
/// process.
fn attempt(node: &mut Node, config: &Config, fault: Option<Fault>, cancel_at_start: bool) -> (anyhow::Result<()>, bool) {
    let (tx, rx) = watch::channel(if cancel_at_start { State::Stopping } else { State::Started });
    {
        let mut g = node.ctl.lock();
        g.halted = false;
        g.fired = false;
        g.armed = fault;
        g.cancel = Some(tx);
    }
    let t0 = std::time::Instant::now();
    let res = rt().block_on(genesis(StateWatcher::from(rx), config, node.db()));
    timing("genesis attempt", t0);
    // The process is dead: import workers that are still running (a sequential table failed
    // while tables with >= 10 groups were still being imported on blocking threads) cannot write
    // any more. Join them: every worker owns a clone of the genesis database, i.e. of the seam.
    node.ctl.lock().halted = true;
    node.db = None;
    {
        let on = node.on_seam.as_ref().expect("harness: node is open");
        let off = node.off_seam.as_ref().expect("harness: node is open");
        while Arc::strong_count(on) > 1 || Arc::strong_count(off) > 1 {
            std::thread::yield_now();
        }
    }
    timing("attempt incl. join", t0);
    let fired = {
        let mut g = node.ctl.lock();
        g.armed = None;
        g.cancel = None;
        g.halted = false;
        g.fired
    };
    (res, fired)
}

fn short_err(e: &anyhow::Error) -> String {
    let s = format!("{e:#}");
    s.chars().take(160).collect()
}

struct Genesis;

impl World for Genesis {
    fn name(&self) -> &'static str {
        "w11_genesis"
    }
    fn properties(&self) -> Vec<&'static str> {
        vec!["C39", "C40"]
    }
    fn real_components(&self) -> Vec<&'static str> {
        vec![
            "fuel_core::service::genesis::Exporter::write_full_snapshot (all on-chain and off-chain tables, blocking export tasks)",
            "fuel_core_chain_config::{SnapshotWriter, SnapshotReader, SnapshotMetadata, StateConfigBuilder} (json and parquet encodings, zstd levels)",
            "fuel_core::service::genesis::execute_genesis_block -> SnapshotImporter, ImportTask, TaskManager, all ImportTable handlers (on_chain.rs, off_chain.rs), genesis progress (GenesisMetadata)",
            "genesis block commit through fuel_core_importer::Importer::commit_result",
            "CombinedDatabase / Database / GenesisDatabase, structured storage incl. the Merklized FuelBlocks blueprint",
            "MemoryStore and HistoricalRocksDB (RocksDB in a temp dir, reopened at every restart)",
            "off-chain indexation run by the import handlers (balances, coins to spend, owned coins/messages)",
        ]
    }
    fn stubs(&self) -> Vec<&'static str> {
        vec![
            "state generator: first StateConfig and blocks written through the typed tables (no executor, no off-chain worker)",
            "storage seam under the node databases (content-addressed read/commit faults, process death)",
            "StateWatcher sender (cancellation), process restarts",
            "MockValidator / MockBlockVerifier / NoopBlockReconciliationWriteAdapter of the Importer (as fuel-core's own execute_and_commit_genesis_block)",
        ]
    }
    fn default_runs(&self, prop: &str, tier: Tier) -> u64 {
        // one run = first genesis + 1..2 x (export, regenesis, [interrupted imports]); about
        // 0.5 CPU-seconds on an idle machine (dominated by fuel-core's unbuffered json writes of
        // the chain config and by thread start-up), C40 runs roughly twice the cost of C39 runs
        match (tier, prop) {
            (Tier::Quick, "C39") => 320,
            (Tier::Quick, _) => 280,
            (Tier::Thorough, "C39") => 6_000,
            (Tier::Thorough, _) => 5_000,
        }
    }
    fn nontrivial_min_ops(&self, prop: &str) -> u64 {
        // C39: first genesis + export + regenesis; C40: + at least one planned interruption / resume
        if prop == "C39" { 3 } else { 4 }
    }
    fn assumptions(&self, prop: &str) -> Vec<String> {
        let mut v = vec![
            "tables with >= 10 groups are imported (and every table is exported) on tokio blocking threads whose interleaving is the OS's; oracles compare final states and per-(table, group) commit counts, which are interleaving independent; faults are content-addressed (decided from the key read / the progress entry inside the committed batch) and the tape is consumed only on the simulation thread before each import call".to_string(),
            "the hashed trace of runs with such tables contains only interleaving-independent facts (plan, final digests); per-attempt outcomes are hashed only in runs where every table has < 10 groups (fully sequential import)".to_string(),
            "RocksDB batch atomicity and WAL are trusted (crash points are between calls into the storage seam)".to_string(),
            "json snapshots: the import group size is chosen by the reader (SnapshotReader::open_w_config) and kept the same across restarts".to_string(),
        ];
        if prop == "C40" {
            v.push("a crash = every later commit fails, blocking workers are joined, all database objects are rebuilt over the same disk (RocksDB closed and reopened)".into());
            v.push("failures of the finalisation after the last group (progress cleanup commit, genesis block commit) are outside the property's quantifier and only reported as probes".into());
        }
        v
    }

    fn run(&self, ctx: &mut Ctx) {
        run(ctx)
    }
}

const ON_STATE_TABLES: &[&str] = &[
    "Coins",
    "Messages",
    "ContractsRawCode",
    "ContractsLatestUtxo",
    "ContractsAssets",
    "ContractsState",
    "Blobs",
];

fn on_col(name: &str) -> <OnChain as DatabaseDescription>::Column {
    enum_iterator::all::<<OnChain as DatabaseDescription>::Column>()
        .find(|c| c.name() == name)
        .unwrap_or_else(|| panic!("harness: no on-chain column {name}"))
}

fn merkle_root_of(ids: &[BlockId]) -> [u8; 32] {
    let mut t = MerkleTree::new();
    for id in ids {
        t.push(id.as_slice());
    }
    t.root()
}

fn block_root_at(db: &CombinedDatabase, h: u32) -> Option<[u8; 32]> {
    db.on_chain()
        .storage::<FuelBlockMerkleMetadata>()
        .get(&DenseMetadataKey::Primary(BlockHeight::from(h)))
        .expect("harness: read merkle metadata")
        .map(|m| *m.root())
}

/// C39: the node started from the snapshot (`dst`, genesis committed) against the node the
/// snapshot was taken from (`src`).
fn check_c39(ctx: &mut Ctx, src: &Node, dst: &Node, model_before: &Model, enc: Enc) {
    let json = enc == Enc::Json;
    for name in ON_STATE_TABLES {
        let col = on_col(name);
        let a = src.dump_on(col);
        let b = dst.dump_on(col);
        let d = first_diff(&a, &b);
        ctx.check("C39", &format!("table-differs:{name}"), d.is_none(), || {
            format!("{name} of the source node vs the regenesis node ({enc:?}): {}", d.unwrap_or_default())
        });
    }
    // processed transaction ids
    {
        let col = on_col("ProcessedTransactions");
        let a = src.dump_on(col);
        let b = dst.dump_on(col);
        let d = first_diff(&a, &b);
        let class = if json && !a.is_empty() && b.is_empty() {
            "json-snapshot-omits-processed-transactions"
        } else {
            "table-differs:ProcessedTransactions"
        };
        ctx.check("C39", class, d.is_none(), || {
            format!(
                "processed transaction ids, source {} vs regenesis {} ({enc:?}): {}",
                a.len(),
                b.len(),
                d.unwrap_or_default()
            )
        });
        if !a.is_empty() {
            ctx.probe("c39_source_had_processed_txs");
        }
    }
    // chain height and the genesis header
    let sh = src.db().on_chain().latest_height();
    let dh = dst.db().on_chain().latest_height();
    let want = model_before.height + 1;
    ctx.check(
        "C39",
        "chain-height",
        sh == Some(model_before.height.into()) && dh == Some(want.into()),
        || format!("source height {sh:?}, regenesis node height {dh:?}, expected {} and {want}", model_before.height),
    );
    let src_root = block_root_at(src.db(), model_before.height);
    let genesis = dst
        .db()
        .on_chain()
        .storage::<FuelBlocks>()
        .get(&want.into())
        .expect("harness: read block")
        .map(|b| b.into_owned());
    match &genesis {
        Some(g) => {
            let hd = g.header();
            let ok = Some(**hd.prev_root()) == src_root
                && hd.da_height().0 == model_before.da_height
                && hd.consensus_parameters_version() == model_before.cp_version + 1
                && hd.state_transition_bytecode_version() == model_before.stf_version + 1;
            ctx.check("C39", "genesis-header-continuity", ok, || {
                format!(
                    "regenesis block header prev_root {} da {} cpv {} stfv {}; source blocks root {:?} da {} cpv {} stfv {}",
                    hex(hd.prev_root().as_slice()),
                    hd.da_height().0,
                    hd.consensus_parameters_version(),
                    hd.state_transition_bytecode_version(),
                    src_root.map(|r| hex(&r)),
                    model_before.da_height,
                    model_before.cp_version,
                    model_before.stf_version
                )
            });
        }
        None => {
            ctx.violate("C39", "chain-height", format!("no block at height {want} in the regenesis node"));
        }
    }
    // block Merkle data: everything the source had is there unchanged, and the tree continues
    {
        let class = if json { "json-snapshot-omits-block-merkle-data" } else { "block-merkle-data" };
        let a = src.dump_on(on_col("FuelBlockMerkleData"));
        let b: BTreeMap<Vec<u8>, Vec<u8>> = dst.dump_on(on_col("FuelBlockMerkleData")).into_iter().collect();
        let missing = a.iter().find(|(k, v)| b.get(k) != Some(v));
        let mut ok = missing.is_none();
        let mut detail = match missing {
            Some((k, _)) => format!("Merkle node {} of the source is missing/changed in the regenesis node ({} vs {} nodes)", hex(k), a.len(), b.len()),
            None => String::new(),
        };
        if ok {
            for h in model_before.height.saturating_sub(3)..=model_before.height {
                let s = block_root_at(src.db(), h);
                let d = block_root_at(dst.db(), h);
                if s.is_some() && s != d {
                    ok = false;
                    detail = format!("block Merkle metadata at height {h}: source {:?}, regenesis {:?}", s.map(|r| hex(&r)), d.map(|r| hex(&r)));
                }
            }
        }
        if ok {
            if let Some(g) = &genesis {
                let mut ids = model_before.block_ids.clone();
                ids.push(g.id());
                let expect = merkle_root_of(&ids);
                let got = block_root_at(dst.db(), want);
                if got != Some(expect) {
                    ok = false;
                    detail = format!(
                        "blocks root after the regenesis block: {:?}, expected the root over all {} block ids {}",
                        got.map(|r| hex(&r)),
                        ids.len(),
                        hex(&expect)
                    );
                }
            }
        }
        ctx.check("C39", class, ok, || format!("{detail} ({enc:?})"));
    }
}

/// C40 bookkeeping clause: the seam's record of applied group commits against the progress on
/// disk. `complete` = the import has finished (progress entries are removed then).
fn check_accounting(
    ctx: &mut Ctx,
    node: &Node,
    reference: &BTreeMap<(Db, String), Vec<usize>>,
    complete: bool,
    cause: &str,
) {
    let applied = node.ctl.applied_by_table();
    for ((db, name), idxs) in &applied {
        let mut sorted = idxs.clone();
        sorted.sort();
        let dup = sorted.windows(2).find(|w| w[0] == w[1]).map(|w| w[0]);
        ctx.check("C40", &format!("group-applied-twice{cause}"), dup.is_none(), || {
            format!("{} `{name}`: group {} was committed more than once (commit order {idxs:?})", db.tag(), dup.unwrap_or(0))
        });
        sorted.dedup();
        let contiguous = sorted.iter().enumerate().all(|(i, x)| i == *x);
        ctx.check("C40", "group-skipped", contiguous, || {
            format!("{} `{name}`: committed groups {sorted:?} are not a prefix 0..k", db.tag())
        });
        let known = reference.get(&(*db, name.clone()));
        let max_ok = match known {
            Some(r) => sorted.iter().all(|i| r.contains(i)),
            None => false,
        };
        ctx.check("C40", "unknown-group", max_ok, || {
            format!("{} `{name}`: committed groups {sorted:?}, the uninterrupted import has {known:?}", db.tag())
        });
    }
    if complete {
        for ((db, name), r) in reference {
            let got: BTreeSet<usize> = applied.get(&(*db, name.clone())).map(|v| v.iter().copied().collect()).unwrap_or_default();
            let want: BTreeSet<usize> = r.iter().copied().collect();
            ctx.check("C40", "group-skipped", got == want, || {
                format!("{} `{name}`: groups committed over all attempts {got:?}, uninterrupted import {want:?}", db.tag())
            });
        }
    } else {
        let progress = node.progress();
        for ((db, name), idxs) in &applied {
            let p = progress.get(&(*db, name.clone())).copied();
            let max = idxs.iter().copied().max();
            ctx.check("C40", &format!("progress-mismatch{cause}"), p == max, || {
                format!("{} `{name}`: progress on disk {p:?}, last committed group {max:?}", db.tag())
            });
        }
        for ((db, name), p) in &progress {
            ctx.check("C40", "progress-mismatch", applied.contains_key(&(*db, name.clone())), || {
                format!("{} `{name}`: progress {p} on disk but no group commit was seen", db.tag())
            });
        }
    }
}

fn compare_nodes(ctx: &mut Ctx, a: &Node, b: &Node, what: &str, cause: &str) -> bool {
    let mut same = true;
    for col in enum_iterator::all::<<OnChain as DatabaseDescription>::Column>() {
        if col.id() == OnChain::metadata_column().id() {
            continue;
        }
        let d = first_diff(&a.dump_on(col), &b.dump_on(col));
        let class = if cause.is_empty() { format!("final-state-differs:on:{}", col.name()) } else { format!("final-state-differs{cause}") };
        same &= ctx.check("C40", &class, d.is_none(), || {
            format!("{what}: on-chain {}: {}", col.name(), d.unwrap_or_default())
        });
    }
    for col in enum_iterator::all::<<OffChain as DatabaseDescription>::Column>() {
        if col.id() == OffChain::metadata_column().id() {
            continue;
        }
        let d = first_diff(&a.dump_off(col), &b.dump_off(col));
        let class = if cause.is_empty() { format!("final-state-differs:off:{}", col.name()) } else { format!("final-state-differs{cause}") };
        same &= ctx.check("C40", &class, d.is_none(), || {
            format!("{what}: off-chain {}: {}", col.name(), d.unwrap_or_default())
        });
    }
    let ha = a.db().on_chain().latest_height();
    let hb = b.db().on_chain().latest_height();
    same &= ctx.check("C40", "final-state-differs:height", ha == hb, || format!("{what}: heights {ha:?} vs {hb:?}"));
    same
}

fn pick_group(ctx: &mut Ctx, by_table: &BTreeMap<(Db, String), Vec<usize>>) -> Option<GroupId> {
    if by_table.is_empty() {
        return None;
    }
    let t = ctx.tape.below(by_table.len());
    let ((db, name), idxs) = by_table.iter().nth(t).unwrap();
    let n = idxs.len();
    let i = match ctx.tape.choose(4) {
        0 => 0,
        1 => n - 1,
        _ => ctx.tape.below(n),
    };
    Some((*db, name.clone(), i))
}

fn run(ctx: &mut Ctx) {
    let sizes = Sizes::of(ctx.tier);
    let chain_id: ChainId = chain_config().consensus_parameters.chain_id();
    // ---- configuration (swarm) ----
    let rounds = 1 + ctx.tape.weighted(&[3, 1]);
    let fault_free = !ctx.tape.chance(7, 8);
    let want_c40 = ctx.prop == "C40" || ctx.tape.chance(1, 3);
    let src_rocks = ctx.tape.chance(1, 40);
    ctx.ev(format!("config rounds={rounds} fault_free={fault_free} c40={want_c40} src_rocks={src_rocks}"));

    // ---- the first chain: genesis from a generated StateConfig ----
    let (mut model, state) = Model::initial(ctx, &sizes);
    let mut src = Node::new(src_rocks);
    ctx.scope("C39");
    ctx.op(format!(
        "first genesis: last_block={:?} coins={} messages={} blobs={} contracts={} slots={:?} balances={:?}",
        state.last_block.as_ref().map(|l| (u32::from(l.block_height), l.da_block_height.0)),
        state.coins.len(),
        state.messages.len(),
        state.blobs.len(),
        state.contracts.len(),
        state.contracts.iter().map(|c| c.states.len()).collect::<Vec<_>>(),
        state.contracts.iter().map(|c| c.balances.len()).collect::<Vec<_>>(),
    ));
    {
        let config = Config::local_node_with_configs(chain_config(), state);
        let r = rt().block_on(genesis(StateWatcher::started(), &config, src.db()));
        if let Err(e) = r {
            // a generated, valid state must be importable; nothing to compare otherwise
            ctx.violate("C39", "first-genesis-failed", short_err(&e));
            return;
        }
        let g = src
            .db()
            .on_chain()
            .storage::<FuelBlocks>()
            .get(&model.height.into())
            .expect("harness: read genesis block")
            .expect("harness: genesis block at the expected height")
            .into_owned();
        model.block_ids.push(g.id());
    }

    for round in 0..rounds {
        if ctx.failed() {
            return;
        }
        // ---- blocks on top ----
        let n_blocks = ctx.tape.choose(sizes.blocks + 1);
        for _ in 0..n_blocks {
            model.apply_block(ctx, &sizes, src.db(), &chain_id);
        }
        // ---- export ----
        let enc = match ctx.tape.choose(5) {
            0 | 1 => Enc::Json,
            2 => Enc::Parquet(ZstdCompressionLevel::Uncompressed),
            3 => Enc::Parquet(ZstdCompressionLevel::Level1),
            _ => Enc::Parquet(ZstdCompressionLevel::Level3),
        };
        let group_size = 1 + ctx.tape.below(7);
        let json_group_size = if ctx.tape.coin() { group_size } else { 1 + ctx.tape.below(7) };
        let snap = new_tempdir();
        ctx.scope("C39");
        ctx.op(format!("round {round}: export encoding={enc:?} group_size={group_size} (json import group size {json_group_size}) at height {}", model.height));
        if let Err(e) = export(src.db(), snap.path(), enc, group_size) {
            ctx.violate("C39", "export-failed", short_err(&e));
            return;
        }
        let config = match open_config(snap.path(), json_group_size) {
            Ok(c) => c,
            Err(e) => {
                ctx.violate("C39", "snapshot-unreadable", short_err(&e));
                return;
            }
        };

        // ---- uninterrupted regenesis (reference of C40, subject of C39) ----
        let dst_rocks = ctx.tape.chance(1, 30);
        let mut dst = Node::new(dst_rocks);
        dst.ctl.lock().reads = Some(BTreeMap::new());
        ctx.op(format!("round {round}: regenesis (uninterrupted) rocksdb={dst_rocks}"));
        let (r, _) = attempt(&mut dst, &config, None, false);
        if let Err(e) = r {
            ctx.violate("C39", "regenesis-failed", short_err(&e));
            return;
        }
        dst.restart();
        let reference = dst.ctl.applied_by_table();
        // keys read while groups are processed (reads after the last group commit belong to the
        // finalisation, reads of the database metadata record to the block commit)
        let n_groups: usize = reference.values().map(|v| v.len()).sum();
        let ref_reads: Vec<(Db, u32, Vec<u8>)> = dst
            .ctl
            .lock()
            .reads
            .take()
            .unwrap_or_default()
            .into_iter()
            .filter(|((db, col, _), seq)| {
                let meta = match db {
                    Db::On => OnChain::metadata_column().id(),
                    Db::Off => OffChain::metadata_column().id(),
                };
                *seq < n_groups && *col != meta
            })
            .map(|(k, _)| k)
            .collect();
        let parallel = reference.values().any(|v| v.len() >= 10);
        if parallel {
            ctx.probe("import_with_parallel_tables");
        }
        if reference.values().any(|v| v.len() >= 2) {
            ctx.probe("table_spans_several_groups");
        }
        for (t, p) in [("ContractsState -> ContractsState", "contract_state_spans_groups"), ("ContractsAssets -> ContractsAssets", "contract_balances_span_groups")] {
            if reference.get(&(Db::On, t.to_string())).map(|v| v.len() >= 2).unwrap_or(false) {
                ctx.probe(p);
            }
        }
        ctx.probe(match enc {
            Enc::Json => "encoding_json",
            Enc::Parquet(_) => "encoding_parquet",
        });
        if round > 0 {
            ctx.probe("second_regenesis_round");
        }
        ctx.ev(format!(
            "snapshot groups: {}",
            reference
                .iter()
                .map(|((db, n), v)| format!("{}:{}={}", db.tag(), n, v.len()))
                .collect::<Vec<_>>()
                .join(" ")
        ));
        // the uninterrupted import itself must have applied every group exactly once, in order
        for ((db, name), v) in &reference {
            let ok = v.iter().enumerate().all(|(i, x)| i == *x);
            ctx.check("C40", "uninterrupted-import-group-order", ok, || {
                format!("{} `{name}`: uninterrupted import committed groups {v:?}", db.tag())
            });
        }
        let (d_on, d_off) = dst.digest();
        ctx.ev(format!("regenesis node digest on={d_on:016x} off={d_off:016x}"));
        check_c39(ctx, &src, &dst, &model, enc);
        if ctx.failed() {
            return;
        }

        // ---- interrupted + resumed import of the same snapshot ----
        if want_c40 {
            ctx.scope("C40");
            interrupted_import(ctx, &config, &dst, &reference, &ref_reads, parallel, fault_free);
            if ctx.failed() {
                return;
            }
        }

        // ---- the regenesis node becomes the next source ----
        let g = dst
            .db()
            .on_chain()
            .storage::<FuelBlocks>()
            .get(&(model.height + 1).into())
            .expect("harness: read block")
            .expect("harness: regenesis block")
            .into_owned();
        model.after_regenesis(g.id(), enc != Enc::Json);
        src = dst;
    }
}

fn interrupted_import(
    ctx: &mut Ctx,
    config: &Config,
    reference_node: &Node,
    reference: &BTreeMap<(Db, String), Vec<usize>>,
    ref_reads: &[(Db, u32, Vec<u8>)],
    parallel: bool,
    fault_free: bool,
) {
    let on_pc = GenesisMetadata::<OnChain>::column().id();
    let off_pc = GenesisMetadata::<OffChain>::column().id();
    let progress_reads: Vec<&(Db, u32, Vec<u8>)> = ref_reads
        .iter()
        .filter(|(db, c, _)| (*db == Db::On && *c == on_pc) || (*db == Db::Off && *c == off_pc))
        .collect();
    let data_reads: Vec<&(Db, u32, Vec<u8>)> = ref_reads
        .iter()
        .filter(|(db, c, _)| !((*db == Db::On && *c == on_pc) || (*db == Db::Off && *c == off_pc)))
        .collect();

    // ---- the plan: everything is drawn before the first attempt ----
    let rocks = ctx.tape.chance(1, 16);
    let n = if fault_free { 0 } else { 1 + ctx.tape.below(4) };
    let extended = !fault_free && ctx.tape.chance(1, 12);
    let mut plan: Vec<(Option<Fault>, bool)> = Vec::new();
    for i in 0..n {
        let kind = ctx.tape.weighted(&[3, 2, 2, 2, 1, 3]);
        let entry = match kind {
            0 | 1 => pick_group(ctx, reference).map(|g| (Some(Fault::CommitFail { g, lost_ack: kind == 1 }), false)),
            2 => pick_group(ctx, reference).map(|g| (Some(Fault::CrashAfter { g }), false)),
            3 => pick_group(ctx, reference).map(|g| (Some(Fault::CancelAfter { g }), false)),
            4 => Some((None, true)),
            _ => {
                let use_progress = !progress_reads.is_empty() && (data_reads.is_empty() || (i > 0 && ctx.tape.coin()));
                let list = if use_progress { &progress_reads } else { &data_reads };
                if list.is_empty() {
                    None
                } else {
                    let (db, column, key) = list[ctx.tape.below(list.len())].clone();
                    Some((Some(Fault::ReadFail { db, column, key }), false))
                }
            }
        };
        if let Some(e) = entry {
            plan.push(e);
        }
    }
    if extended {
        let f = if ctx.tape.coin() { Fault::FinalBlockCommitFail } else { Fault::FinalOffCleanupFail };
        plan.push((Some(f), false));
    }
    let render = |f: &(Option<Fault>, bool)| match f {
        (None, _) => "cancel before the import starts".to_string(),
        (Some(Fault::ReadFail { db, column, key }), _) => {
            let pk = (*db == Db::On && *column == on_pc) || (*db == Db::Off && *column == off_pc);
            if pk {
                format!(
                    "read error on the progress entry of {} `{}`",
                    db.tag(),
                    postcard::from_bytes::<String>(key).unwrap_or_default()
                )
            } else {
                format!("read error on {} column {} key {}", db.tag(), column, hex(key))
            }
        }
        (Some(Fault::CommitFail { g, lost_ack }), _) => format!(
            "commit of {} `{}` group {} fails ({})",
            g.0.tag(),
            g.1,
            g.2,
            if *lost_ack { "batch applied, ack lost" } else { "nothing written" }
        ),
        (Some(Fault::CrashAfter { g }), _) => format!("process dies after the commit of {} `{}` group {}", g.0.tag(), g.1, g.2),
        (Some(Fault::CancelAfter { g }), _) => format!("cancellation observed after {} `{}` group {}", g.0.tag(), g.1, g.2),
        (Some(Fault::FinalOffCleanupFail), _) => "[outside the property] off-chain progress cleanup commit fails".to_string(),
        (Some(Fault::FinalBlockCommitFail), _) => "[outside the property] genesis block commit fails".to_string(),
    };
    ctx.ev(format!("interrupted import: rocksdb={rocks} parallel_tables={parallel} plan:"));
    for p in &plan {
        // one workload operation per planned interruption (whether a later one still finds its
        // target unprocessed depends on thread timing when tables are imported in parallel)
        ctx.op(format!("  - {}", render(p)));
    }
    ctx.op("  - then restarts without faults until the import completes");
    // a swallowed read error of a progress entry is tracked as its own cause (see known findings)
    let mut cause: &str = "";

    let mut node = Node::new(rocks);
    let mut done = false;
    let mut attempts = 0u32;
    for (i, (fault, cancel_at_start)) in plan.iter().enumerate() {
        attempts += 1;
        let line = format!("import attempt {} armed: {}", i + 1, render(&(fault.clone(), *cancel_at_start)));
        if !parallel {
            ctx.ev(line);
        } else if ctx.keep_log {
            ctx.log.push(format!("  ~ {line}"));
        }
        let kind = fault.as_ref().map(|f| f.kind()).unwrap_or("cancel_before_start");
        if node.db.is_none() {
            node.restart();
        }
        let (res, fired) = attempt(&mut node, config, fault.clone(), *cancel_at_start);
        if fired || *cancel_at_start {
            ctx.fault(kind);
            if let Some(Fault::ReadFail { db, column, .. }) = fault {
                if (*db == Db::On && *column == on_pc) || (*db == Db::Off && *column == off_pc) {
                    ctx.probe("progress_entry_read_error_fired");
                    cause = ":after-progress-read-error";
                }
            }
        } else {
            ctx.probe("armed_fault_target_already_done");
        }
        if !parallel {
            // fully sequential import: the outcome of every attempt is a function of the tape
            ctx.ev(format!("  attempt {} -> {} fired={fired}", i + 1, if res.is_ok() { "completed" } else { "failed" }));
        } else if ctx.keep_log {
            ctx.log.push(format!("  ~ (not hashed, thread timing) attempt {} -> {} fired={fired}", i + 1, match &res { Ok(()) => "completed".to_string(), Err(e) => short_err(e) }));
        }
        if extended {
            // bookkeeping clauses do not apply once a finalisation fault may have fired
            if res.is_ok() {
                done = true;
                break;
            }
            continue;
        }
        check_accounting(ctx, &node, reference, res.is_ok(), cause);
        if ctx.failed() {
            return;
        }
        if !parallel {
            let p = node.progress();
            ctx.ev(format!(
                "  progress on disk: {}",
                p.iter().map(|((db, n), i)| format!("{}:{}={}", db.tag(), n, i)).collect::<Vec<_>>().join(" ")
            ));
        }
        if res.is_ok() {
            done = true;
            break;
        }
    }
    // ---- faults have stopped: the import must complete now ----
    if !done {
        attempts += 1;
        if !parallel {
            ctx.ev("import attempt without faults (resume)");
        } else if ctx.keep_log {
            ctx.log.push("  ~ import attempt without faults (resume)".to_string());
        }
        if node.db.is_none() {
            node.restart();
        }
        let (res, _) = attempt(&mut node, config, None, false);
        match res {
            Ok(()) => {}
            Err(e) if extended => {
                ctx.probe("ext_finalisation_fault_resume_failed");
                if ctx.keep_log {
                    ctx.log.push(format!("  ~ resume after a finalisation fault failed: {}", short_err(&e)));
                }
                return;
            }
            Err(e) => {
                ctx.violate("C40", "resume-fails", format!("import without faults after {} interrupted attempts fails: {}", attempts - 1, short_err(&e)));
                return;
            }
        }
    }
    node.restart();
    ctx.probe_n("import_attempts", attempts as u64);
    if extended {
        // statistics only
        let applied = node.ctl.applied_by_table();
        let twice = applied.values().any(|v| {
            let mut s = v.clone();
            s.sort();
            s.windows(2).any(|w| w[0] == w[1])
        });
        let (a, b) = (node.digest(), reference_node.digest());
        ctx.probe("ext_finalisation_fault_runs");
        if twice {
            ctx.probe("ext_finalisation_fault_group_reapplied");
        }
        if a != b {
            ctx.probe("ext_finalisation_fault_state_diverged");
        }
        return;
    }
    check_accounting(ctx, &node, reference, true, cause);
    if ctx.failed() {
        return;
    }
    let same = compare_nodes(ctx, reference_node, &node, "uninterrupted vs interrupted+resumed import", cause);
    let (d_on, d_off) = node.digest();
    ctx.ev(format!("resumed node digest on={d_on:016x} off={d_off:016x} same={same}"));
    if node.rocks {
        ctx.probe("resumed_on_rocksdb");
    }
}

fn main() {
    simkit::cli::main_world(&Genesis)
}
