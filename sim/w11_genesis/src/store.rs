//! Fault-injecting, observing storage seam under the node databases.
//!
//! `Seam<D>` wraps fuel-core's real `MemoryStore` / `HistoricalRocksDB` and is handed to
//! `Database::new(Arc<dyn TransactableStorage>)`; the genesis databases created by
//! `Database::into_genesis` share the same `Arc`, so every read and commit of the snapshot
//! import passes through it.
//!
//! All faults are **content-addressed** (decided from what is being read / committed, never
//! from "the n-th call"): tables with many groups are imported on tokio blocking threads whose
//! interleaving belongs to the OS. A genesis group commit is recognised by the progress entry
//! `GenesisMetadata[migration name] = group index` that the import task writes in the same
//! transaction as the group.

use fuel_core::{
    database::database_description::DatabaseDescription,
    state::{
        IterableKeyValueView,
        KeyValueView,
        TransactableStorage,
    },
};
use fuel_core_services::State;
use fuel_core_storage::{
    Error as StorageError,
    Result as StorageResult,
    iter::{
        BoxedIter,
        IterDirection,
        IterableStore,
    },
    kv_store::{
        KVItem,
        KeyItem,
        KeyValueInspect,
        StorageColumn,
        Value,
        WriteOperation,
    },
    transactional::{
        Changes,
        StorageChanges,
    },
};
use std::{
    collections::BTreeMap,
    sync::{
        Arc,
        Mutex,
    },
};
use tokio::sync::watch;

#[derive(Clone, Copy, Debug, PartialEq, Eq, PartialOrd, Ord)]
pub enum Db {
    On,
    Off,
}

impl Db {
    pub fn tag(self) -> &'static str {
        match self {
            Db::On => "on",
            Db::Off => "off",
        }
    }
}

/// (database, migration name, group index)
pub type GroupId = (Db, String, usize);

#[derive(Clone, Debug, PartialEq, Eq)]
pub enum Fault {
    /// The commit that carries group `g` fails; `lost_ack` = the batch is applied durably but the
    /// caller sees an error, otherwise nothing is written.
    CommitFail { g: GroupId, lost_ack: bool },
    /// The process dies right after the commit of group `g` (every later commit fails).
    CrashAfter { g: GroupId },
    /// The state watcher switches to `Stopping` right after the commit of group `g`, so the
    /// task of that table observes the cancellation before its next group.
    CancelAfter { g: GroupId },
    /// The first read of this key fails (a read inside `process()` of the group that touches
    /// the key, or the progress lookup of a table when the key is a progress key).
    ReadFail { db: Db, column: u32, key: Vec<u8> },
    /// Outside the property's quantifier, evaluated as a statistic only: the commit that removes
    /// the off-chain progress entries fails.
    FinalOffCleanupFail,
    /// Outside the property's quantifier, evaluated as a statistic only: the commit of the
    /// genesis block (on-chain) fails after the off-chain progress was already removed.
    FinalBlockCommitFail,
}

impl Fault {
    pub fn kind(&self) -> &'static str {
        match self {
            Fault::CommitFail { lost_ack: false, .. } => "commit_fail_nothing_written",
            Fault::CommitFail { lost_ack: true, .. } => "commit_fail_lost_ack",
            Fault::CrashAfter { .. } => "crash_after_group",
            Fault::CancelAfter { .. } => "cancel_before_next_group",
            Fault::ReadFail { .. } => "read_fail",
            Fault::FinalOffCleanupFail => "final_offchain_cleanup_fail",
            Fault::FinalBlockCommitFail => "final_block_commit_fail",
        }
    }
}

#[derive(Default)]
pub struct CtlInner {
    /// The simulated process is dead: nothing reaches the disk any more.
    pub halted: bool,
    pub armed: Option<Fault>,
    /// Set when the armed fault actually fired.
    pub fired: bool,
    /// Every durably applied group commit, in application order.
    pub applied: Vec<GroupId>,
    /// When `Some`, every point read is recorded together with the number of group commits that
    /// were applied before its first occurrence (used on the uninterrupted reference import to
    /// learn the deterministic set of keys the import reads while it processes groups; reads
    /// after the last group commit belong to the finalisation).
    pub reads: Option<BTreeMap<(Db, u32, Vec<u8>), usize>>,
    pub cancel: Option<watch::Sender<State>>,
    pub commits: u64,
    pub point_reads: u64,
    pub halted_commits: u64,
}

/// Shared by the on-chain and the off-chain seam of one node.
#[derive(Default)]
pub struct Ctl {
    pub inner: Mutex<CtlInner>,
    pub on_progress_column: u32,
    pub off_progress_column: u32,
    pub on_blocks_column: u32,
}

impl Ctl {
    pub fn lock(&self) -> std::sync::MutexGuard<'_, CtlInner> {
        self.inner.lock().unwrap_or_else(|e| e.into_inner())
    }
    fn progress_column(&self, db: Db) -> u32 {
        match db {
            Db::On => self.on_progress_column,
            Db::Off => self.off_progress_column,
        }
    }
    /// Per (db, migration) the applied group indexes.
    pub fn applied_by_table(&self) -> BTreeMap<(Db, String), Vec<usize>> {
        let g = self.lock();
        let mut m: BTreeMap<(Db, String), Vec<usize>> = BTreeMap::new();
        for (db, name, idx) in &g.applied {
            m.entry((*db, name.clone())).or_default().push(*idx);
        }
        m
    }
}

pub struct Seam<D: DatabaseDescription> {
    pub inner: Arc<dyn TransactableStorage<D::Height, Column = D::Column>>,
    pub db: Db,
    pub ctl: Arc<Ctl>,
}

impl<D: DatabaseDescription> std::fmt::Debug for Seam<D> {
    fn fmt(&self, f: &mut std::fmt::Formatter<'_>) -> std::fmt::Result {
        write!(f, "Seam({})", self.db.tag())
    }
}

fn injected(msg: &str) -> StorageError {
    StorageError::Other(anyhow::anyhow!("injected: {msg}"))
}

/// What a batch of changes says about the genesis import.
struct BatchInfo {
    groups: Vec<(String, usize)>,
    progress_removals: usize,
    touches_blocks: bool,
}

fn inspect(changes: &[&Changes], progress_column: u32, blocks_column: Option<u32>) -> BatchInfo {
    let mut info = BatchInfo {
        groups: Vec::new(),
        progress_removals: 0,
        touches_blocks: false,
    };
    for c in changes {
        if let Some(col) = c.get(&progress_column) {
            for (k, op) in col {
                match op {
                    WriteOperation::Insert(v) => {
                        let name: Result<String, _> = postcard::from_bytes(k.as_ref());
                        let idx: Result<u64, _> = postcard::from_bytes(v.as_ref());
                        if let (Ok(name), Ok(idx)) = (name, idx) {
                            info.groups.push((name, idx as usize));
                        }
                    }
                    WriteOperation::Remove => info.progress_removals += 1,
                }
            }
        }
        if let Some(bc) = blocks_column {
            if c.get(&bc).map(|m| !m.is_empty()).unwrap_or(false) {
                info.touches_blocks = true;
            }
        }
    }
    info.groups.sort();
    info
}

impl<D: DatabaseDescription> KeyValueInspect for Seam<D> {
    type Column = D::Column;

    // `exists`, `size_of_value`, `read_*` use the trait defaults, which go through `get`.
    fn get(&self, key: &[u8], column: Self::Column) -> StorageResult<Option<Value>> {
        {
            let mut g = self.ctl.lock();
            g.point_reads += 1;
            let seq = g.applied.len();
            if let Some(reads) = g.reads.as_mut() {
                reads.entry((self.db, column.id(), key.to_vec())).or_insert(seq);
            }
            let hit = matches!(&g.armed, Some(Fault::ReadFail { db, column: c, key: k })
                if *db == self.db && *c == column.id() && k.as_slice() == key);
            if hit && !g.fired {
                g.fired = true;
                return Err(injected("read error"));
            }
        }
        self.inner.get(key, column)
    }
}

impl<D: DatabaseDescription> IterableStore for Seam<D> {
    fn iter_store(
        &self,
        column: Self::Column,
        prefix: Option<&[u8]>,
        start: Option<&[u8]>,
        direction: IterDirection,
    ) -> BoxedIter<'_, KVItem> {
        self.inner.iter_store(column, prefix, start, direction)
    }
    fn iter_store_keys(
        &self,
        column: Self::Column,
        prefix: Option<&[u8]>,
        start: Option<&[u8]>,
        direction: IterDirection,
    ) -> BoxedIter<'_, KeyItem> {
        self.inner.iter_store_keys(column, prefix, start, direction)
    }
}

impl<D: DatabaseDescription> TransactableStorage<D::Height> for Seam<D> {
    fn commit_changes(
        &self,
        height: Option<D::Height>,
        changes: StorageChanges,
    ) -> StorageResult<()> {
        let info = {
            let list: Vec<&Changes> = match &changes {
                StorageChanges::Changes(c) => vec![c],
                StorageChanges::ChangesList(l) => l.iter().collect(),
            };
            inspect(
                &list,
                self.ctl.progress_column(self.db),
                (self.db == Db::On).then_some(self.ctl.on_blocks_column),
            )
        };
        // The control lock is held across the inner commit: "applied" bookkeeping, the halt flag
        // and the commit itself are one atomic step (commits of the two databases serialise).
        let mut g = self.ctl.lock();
        g.commits += 1;
        if g.halted {
            g.halted_commits += 1;
            return Err(injected("process is dead, nothing is written"));
        }
        let is_group = |gid: &GroupId| {
            gid.0 == self.db && info.groups.iter().any(|(n, i)| *n == gid.1 && *i == gid.2)
        };
        enum Act {
            Pass,
            FailBefore,
            LostAck,
            CrashAfter,
            CancelAfter,
        }
        let act = match &g.armed {
            _ if g.fired => Act::Pass,
            Some(Fault::CommitFail { g: gid, lost_ack }) if is_group(gid) => {
                if *lost_ack { Act::LostAck } else { Act::FailBefore }
            }
            Some(Fault::CrashAfter { g: gid }) if is_group(gid) => Act::CrashAfter,
            Some(Fault::CancelAfter { g: gid }) if is_group(gid) => Act::CancelAfter,
            Some(Fault::FinalOffCleanupFail)
                if self.db == Db::Off && info.groups.is_empty() && info.progress_removals > 0 =>
            {
                Act::FailBefore
            }
            Some(Fault::FinalBlockCommitFail) if self.db == Db::On && info.touches_blocks => {
                Act::FailBefore
            }
            _ => Act::Pass,
        };
        if let Act::FailBefore = act {
            g.fired = true;
            return Err(injected("commit error, nothing written"));
        }
        self.inner.commit_changes(height, changes)?;
        for (n, i) in &info.groups {
            g.applied.push((self.db, n.clone(), *i));
        }
        match act {
            Act::LostAck => {
                g.fired = true;
                Err(injected("commit error after the batch was applied (lost ack)"))
            }
            Act::CrashAfter => {
                g.fired = true;
                g.halted = true;
                Ok(())
            }
            Act::CancelAfter => {
                g.fired = true;
                if let Some(tx) = &g.cancel {
                    let _ = tx.send(State::Stopping);
                }
                Ok(())
            }
            _ => Ok(()),
        }
    }

    fn view_at_height(
        &self,
        height: &D::Height,
    ) -> StorageResult<KeyValueView<Self::Column, D::Height>> {
        self.inner.view_at_height(height)
    }

    fn latest_view(&self) -> StorageResult<IterableKeyValueView<Self::Column, D::Height>> {
        self.inner.latest_view()
    }

    fn rollback_block_to(&self, height: &D::Height) -> StorageResult<()> {
        self.inner.rollback_block_to(height)
    }

    fn shutdown(&self) {
        self.inner.shutdown()
    }
}
