//! W9 gas — the real `AlgorithmUpdaterV1` driven by two simulated parties (L2 block source,
//! DA recorder delivering batches late / overlapping / for unknown heights), a fault-injecting
//! `UnrecordedBlocks` store, and estimate clients that query `worst_case` against the evolving
//! algorithm state. Properties: C34 (bounds + rate limits), C35 (worst-case estimates).

use fuel_gas_price_algorithm::v1::{
    AlgorithmUpdaterV1,
    ClampedPercentage,
    Error,
    L2ActivityTracker,
    UnrecordedBlocks,
};
use simkit::{
    Ctx,
    Tier,
    World,
};
use std::{
    collections::BTreeMap,
    num::NonZeroU64,
};

struct FaultyUnrecorded {
    inner: BTreeMap<u32, u64>,
    fail_insert: bool,
    fail_remove: bool,
}

impl UnrecordedBlocks for FaultyUnrecorded {
    fn insert(&mut self, height: u32, bytes: u64) -> Result<(), String> {
        if self.fail_insert {
            self.fail_insert = false;
            return Err("injected insert failure".into());
        }
        self.inner.insert(height, bytes);
        Ok(())
    }
    fn remove(&mut self, height: &u32) -> Result<Option<u64>, String> {
        if self.fail_remove {
            self.fail_remove = false;
            return Err("injected remove failure".into());
        }
        Ok(self.inner.remove(height))
    }
}

fn magnitude(ctx: &mut Ctx, max_pow10: u64) -> u64 {
    // log-uniform-ish value, 0 is likely
    match ctx.tape.choose(6) {
        0 => 0,
        1 => ctx.tape.choose(10),
        2 => ctx.tape.choose(1000),
        _ => {
            let p = ctx.tape.choose(max_pow10 + 1) as u32;
            let base = 10u64.saturating_pow(p);
            base.saturating_mul(1 + ctx.tape.choose(9)) + ctx.tape.choose(10)
        }
    }
}

fn pct(ctx: &mut Ctx) -> u16 {
    match ctx.tape.choose(8) {
        0 => 0,
        1..=4 => ctx.tape.choose(31) as u16,
        5 => 25,
        6 => ctx.tape.choose(101) as u16,
        _ => ctx.tape.choose(400) as u16,
    }
}

/// Reference: apply the maximal per-block increase with integer rounding down once per block.
fn compound(price: u64, pct: u64, blocks: u32) -> u128 {
    let mut p = price as u128;
    for _ in 0..blocks {
        let inc = p * (pct as u128) / 100;
        p = p.saturating_add(inc);
        if p > u64::MAX as u128 {
            return u64::MAX as u128;
        }
    }
    p
}

struct Gas;

impl World for Gas {
    fn name(&self) -> &'static str {
        "w9_gas"
    }
    fn properties(&self) -> Vec<&'static str> {
        vec!["C34", "C35"]
    }
    fn real_components(&self) -> Vec<&'static str> {
        vec![
            "fuel_gas_price_algorithm::v1::AlgorithmUpdaterV1 (update_l2_block_data, update_da_record_data, algorithm)",
            "fuel_gas_price_algorithm::v1::AlgorithmV1::{calculate,worst_case}",
            "fuel_gas_price_algorithm::utils::cumulative_percentage_change",
            "L2ActivityTracker",
        ]
    }
    fn stubs(&self) -> Vec<&'static str> {
        vec![
            "L2 block source and DA recorder (simulated parties)",
            "UnrecordedBlocks storage (BTreeMap with injected insert/remove errors)",
            "gas price service task, its DB and DA source are not run (the updater is driven directly)",
        ]
    }
    fn default_runs(&self, _prop: &str, tier: Tier) -> u64 {
        match tier {
            Tier::Quick => 20_000,
            Tier::Thorough => 12_000_000,
        }
    }
    fn nontrivial_min_ops(&self, _prop: &str) -> u64 {
        5
    }
    fn assumptions(&self, prop: &str) -> Vec<String> {
        let mut v = vec![
            "configurations keep min_price * gas_price_factor below u64::MAX (no saturation of the bound itself)".to_string(),
        ];
        if prop == "C35" {
            v.push("the totality / monotonicity / compounding clauses are a function of (price, percentage, horizon); this family samples them on simulated state, it does not enumerate the table region".into());
        }
        v
    }

    fn run(&self, ctx: &mut Ctx) {
        // ---- configuration (swarm) ----
        let factor = *ctx.tape.pick(&[1u64, 1, 10, 100, 1000, 1_000_000]);
        let min_exec = magnitude(ctx, 9);
        let min_da = magnitude(ctx, 9);
        let max_da = match ctx.tape.choose(4) {
            0 => magnitude(ctx, 9), // may be below min
            _ => min_da.saturating_add(magnitude(ctx, 10)),
        };
        let exec_pct = pct(ctx);
        let da_pct = pct(ctx);
        let threshold = ctx.tape.choose(101) as u8;
        let p_comp = match ctx.tape.choose(5) {
            0 => 0i64,
            1 => -(magnitude(ctx, 6) as i64),
            _ => magnitude(ctx, 6) as i64,
        };
        let d_comp = match ctx.tape.choose(5) {
            0 => 0i64,
            1 => -(magnitude(ctx, 6) as i64),
            _ => magnitude(ctx, 6) as i64,
        };
        let activity = if ctx.tape.coin() {
            L2ActivityTracker::new_always_normal()
        } else {
            let n = ctx.tape.choose(6) as u16;
            let c = ctx.tape.choose(6) as u16;
            let d = ctx.tape.choose(6) as u16;
            let a = ctx.tape.choose(20) as u16;
            let thr = ctx.tape.choose(101) as u8;
            L2ActivityTracker::new(n, c, d, a, ClampedPercentage::new(thr))
        };
        // starting prices are configuration: inside the bounds, as the service initialises them
        let min_exec_scaled0 = min_exec.saturating_mul(factor);
        let min_da_scaled0 = min_da.saturating_mul(factor);
        let max_da_scaled0 = max_da.max(min_da).saturating_mul(factor);
        let start_exec = magnitude(ctx, 12)
            .saturating_mul(if ctx.tape.coin() { factor } else { 1 })
            .max(min_exec_scaled0);
        let start_da = magnitude(ctx, 12)
            .saturating_mul(if ctx.tape.coin() { factor } else { 1 })
            .clamp(min_da_scaled0, max_da_scaled0);
        let start_height = match ctx.tape.choose(4) {
            0 => 0u32,
            1 => ctx.tape.choose(100) as u32,
            2 => u32::MAX - ctx.tape.choose(40) as u32,
            _ => ctx.tape.choose(1_000_000) as u32,
        };
        let fault_rate = *ctx.tape.pick(&[0u64, 0, 0, 1, 3, 10]); // percent
        let extreme_prices = ctx.tier == Tier::Thorough && ctx.tape.chance(1, 10);

        let mut upd = AlgorithmUpdaterV1 {
            new_scaled_exec_price: start_exec,
            min_exec_gas_price: min_exec,
            exec_gas_price_change_percent: exec_pct,
            l2_block_height: start_height,
            l2_block_fullness_threshold_percent: ClampedPercentage::new(threshold),
            new_scaled_da_gas_price: start_da,
            gas_price_factor: NonZeroU64::new(factor).unwrap(),
            min_da_gas_price: min_da,
            max_da_gas_price: max_da,
            max_da_gas_price_change_percent: da_pct,
            total_da_rewards: 0,
            latest_known_total_da_cost: 0,
            projected_total_da_cost: 0,
            da_p_component: p_comp,
            da_d_component: d_comp,
            last_profit: 0,
            second_to_last_profit: 0,
            latest_da_cost_per_byte: magnitude(ctx, 6) as u128,
            l2_activity: activity,
            unrecorded_blocks_bytes: 0,
        };
        ctx.ev(format!(
            "cfg factor={factor} min_exec={min_exec} min_da={min_da} max_da={max_da} exec_pct={exec_pct} da_pct={da_pct} thr={threshold} p={p_comp} d={d_comp} start_exec={start_exec} start_da={start_da} h0={start_height} faults={fault_rate}%"
        ));
        let mut store = FaultyUnrecorded {
            inner: BTreeMap::new(),
            fail_insert: false,
            fail_remove: false,
        };
        let min_exec_scaled = min_exec.saturating_mul(factor);
        let min_da_scaled = min_da.saturating_mul(factor);
        let max_da_scaled = max_da.max(min_da).saturating_mul(factor);
        // estimates issued earlier: (for_height issued at, target height, estimate)
        let mut issued: Vec<(u32, u64)> = Vec::new();

        let steps = 10 + ctx.tape.choose(if ctx.tier == Tier::Thorough { 400 } else { 120 });
        for _ in 0..steps {
            if ctx.failed() {
                return;
            }
            let kind = ctx.tape.weighted(&[50, 8, 18, 24]);
            ctx.scope(if kind == 3 { "C35" } else { "C34" });
            match kind {
                // ---- L2 block at the expected height ----
                0 => {
                    let height = upd.l2_block_height.saturating_add(1);
                    let capacity = 1 + magnitude(ctx, 9);
                    let used = match ctx.tape.choose(4) {
                        0 => 0,
                        1 => capacity,
                        2 => ctx.tape.choose(capacity + 1),
                        _ => magnitude(ctx, 10), // may exceed capacity
                    };
                    let bytes = magnitude(ctx, 7);
                    let fee = magnitude(ctx, 15) as u128;
                    let inject = fault_rate > 0 && ctx.tape.chance(fault_rate, 100);
                    if inject {
                        store.fail_insert = true;
                        ctx.fault("unrecorded_insert_error");
                    }
                    let before = upd.clone();
                    let res = upd.update_l2_block_data(
                        height,
                        used,
                        NonZeroU64::new(capacity).unwrap(),
                        bytes,
                        fee,
                        &mut store,
                    );
                    store.fail_insert = false;
                    ctx.op(format!(
                        "l2 h={height} used={used} cap={capacity} bytes={bytes} fee={fee} inject={inject} -> {} exec={} da={}",
                        res.is_ok(), upd.new_scaled_exec_price, upd.new_scaled_da_gas_price
                    ));
                    if before.l2_block_height == u32::MAX {
                        // expected height saturates: u32::MAX+1 does not exist; skip oracle
                        ctx.probe("height_saturated");
                        continue;
                    }
                    match res {
                        Ok(()) => {
                            check_bounds(ctx, &upd, min_exec_scaled, min_da_scaled, max_da_scaled);
                            let ch = (before.new_scaled_exec_price as u128
                                * before.exec_gas_price_change_percent as u128
                                / 100) as u128;
                            let prev = before.new_scaled_exec_price as u128;
                            let new = upd.new_scaled_exec_price as u128;
                            let within = new <= prev + ch && new + ch >= prev;
                            ctx.check(
                                "C34",
                                "exec-rate",
                                within || upd.new_scaled_exec_price == min_exec_scaled,
                                || format!("exec price moved {prev} -> {new}, allowed change {ch} (pct {})", before.exec_gas_price_change_percent),
                            );
                            check_da_rate(ctx, &before, &upd, min_da_scaled, max_da_scaled, "l2");
                            ctx.check("C34", "height-advanced", upd.l2_block_height == height, || {
                                format!("height {} after accepted update for {height}", upd.l2_block_height)
                            });
                        }
                        Err(e) => {
                            // only the injected storage error may fail a consecutive update
                            ctx.check(
                                "C34",
                                "consecutive-update-rejected",
                                inject && matches!(e, Error::CouldNotInsertUnrecordedBlock(_)),
                                || format!("update for the expected height {height} failed: {e:?}"),
                            );
                            // after an injected store failure the bounds must still hold
                            check_bounds(ctx, &upd, min_exec_scaled, min_da_scaled, max_da_scaled);
                        }
                    }
                }
                // ---- L2 block at a wrong height ----
                1 => {
                    let expected = upd.l2_block_height.saturating_add(1);
                    let height = match ctx.tape.choose(5) {
                        0 => upd.l2_block_height,
                        1 => expected.saturating_add(1),
                        2 => 0,
                        3 => upd.l2_block_height.saturating_sub(1 + ctx.tape.choose(5) as u32),
                        _ => ctx.tape.choose(u32::MAX as u64 + 1) as u32,
                    };
                    if height == expected {
                        continue;
                    }
                    let before = upd.clone();
                    let store_before = store.inner.clone();
                    let res = upd.update_l2_block_data(
                        height,
                        ctx.tape.choose(100),
                        NonZeroU64::new(100).unwrap(),
                        ctx.tape.choose(1000),
                        ctx.tape.choose(1000) as u128,
                        &mut store,
                    );
                    ctx.op(format!("l2-wrong h={height} expected={expected} -> {}", res.is_ok()));
                    ctx.check("C34", "nonconsecutive-accepted", res.is_err(), || {
                        format!("update for height {height} accepted, expected height {expected}")
                    });
                    ctx.check(
                        "C34",
                        "rejected-update-changed-state",
                        upd == before && store.inner == store_before,
                        || format!("state changed by rejected update: before {before:?} after {upd:?}"),
                    );
                }
                // ---- DA recording batch ----
                2 => {
                    let known: Vec<u32> = store.inner.keys().copied().collect();
                    let (lo, hi) = if !known.is_empty() && ctx.tape.chance(4, 5) {
                        let a = *ctx.tape.pick(&known);
                        let len = ctx.tape.small(6) as u32;
                        (a, a.saturating_add(len))
                    } else {
                        // unknown / already recorded heights, or an empty range
                        let a = ctx.tape.choose(start_height as u64 + 50) as u32;
                        if ctx.tape.chance(1, 4) {
                            (a.saturating_add(1), a)
                        } else {
                            (a, a.saturating_add(ctx.tape.small(4) as u32))
                        }
                    };
                    let rec_bytes = match ctx.tape.choose(6) {
                        0 => 0u32,
                        _ => 1 + magnitude(ctx, 6) as u32,
                    };
                    let cost = magnitude(ctx, 14) as u128;
                    let inject = fault_rate > 0 && ctx.tape.chance(fault_rate, 100);
                    if inject {
                        store.fail_remove = true;
                        ctx.fault("unrecorded_remove_error");
                    }
                    let before = upd.clone();
                    let res = upd.update_da_record_data(lo..=hi, rec_bytes, cost, &mut store);
                    store.fail_remove = false;
                    ctx.op(format!(
                        "da {lo}..={hi} bytes={rec_bytes} cost={cost} inject={inject} -> {} da={}",
                        res.is_ok(), upd.new_scaled_da_gas_price
                    ));
                    if lo > hi {
                        ctx.check("C34", "empty-da-range-changed-state", res.is_ok() && upd == before, || {
                            "empty DA range changed the updater".to_string()
                        });
                        continue;
                    }
                    if res.is_ok() {
                        check_bounds(ctx, &upd, min_exec_scaled, min_da_scaled, max_da_scaled);
                        check_da_rate(ctx, &before, &upd, min_da_scaled, max_da_scaled, "da");
                        ctx.check(
                            "C34",
                            "da-record-moved-exec-price",
                            upd.new_scaled_exec_price == before.new_scaled_exec_price
                                && upd.l2_block_height == before.l2_block_height,
                            || "DA recording changed exec price or height".to_string(),
                        );
                    } else {
                        ctx.probe("da_record_error");
                        ctx.check(
                            "C34",
                            "da-error-moved-prices",
                            upd.new_scaled_exec_price == before.new_scaled_exec_price
                                && upd.new_scaled_da_gas_price == before.new_scaled_da_gas_price,
                            || "failed DA recording changed a price".to_string(),
                        );
                    }
                }
                // ---- estimate client ----
                _ => {
                    let mut alg_upd = upd.clone();
                    if extreme_prices && ctx.tape.chance(1, 3) {
                        // a client of a chain whose price is very large
                        alg_upd.new_scaled_exec_price = u64::MAX >> ctx.tape.choose(40);
                        alg_upd.new_scaled_da_gas_price = u64::MAX >> ctx.tape.choose(40);
                    }
                    let alg = alg_upd.algorithm();
                    let f = alg_upd.gas_price_factor.get();
                    let exec = alg_upd.new_scaled_exec_price / f;
                    let da = alg_upd.new_scaled_da_gas_price / f;
                    let for_h = alg_upd.l2_block_height;
                    let horizon = match ctx.tape.choose(8) {
                        0 => 0u32,
                        1 => 25,
                        2 => 24,
                        3 => 26,
                        4 => ctx.tape.choose(200) as u32,
                        _ => ctx.tape.choose(41) as u32,
                    };
                    // sometimes a client asks for a height that is already in the past
                    let target = if ctx.tape.chance(1, 12) {
                        for_h.saturating_sub(ctx.tape.choose(3) as u32)
                    } else {
                        for_h.saturating_add(horizon)
                    };
                    let blocks = target.saturating_sub(for_h);
                    if blocks <= 25 && (exec_pct <= 25 || da_pct <= 25) {
                        ctx.probe("table_region");
                    }
                    if blocks == 25 || exec_pct == 25 || da_pct == 25 {
                        ctx.probe("table_edge");
                    }
                    ctx.op(format!(
                        "estimate for_h={for_h} horizon={blocks} exec={exec} da={da} pcts={exec_pct}/{da_pct}"
                    ));
                    let est = alg.worst_case(target);
                    ctx.ev(format!("  -> {est}"));
                    // (b) monotone in the horizon
                    if target < u32::MAX {
                        let next = alg.worst_case(target + 1);
                        ctx.check("C35", "not-monotone", next >= est, || {
                            format!("estimate decreased with horizon: h={blocks} -> {est}, h+1 -> {next} (exec={exec} da={da} pcts {exec_pct}/{da_pct})")
                        });
                    }
                    // (c) at least the compounded price with per-block floor
                    let reference = compound(exec, exec_pct as u64, blocks)
                        .saturating_add(compound(da, da_pct as u64, blocks))
                        .min(u64::MAX as u128);
                    // The estimate is computed in f64: a shortfall of relative size <= 2^-40 is
                    // the (known, recorded) floating point rounding defect; anything larger is a
                    // different violation and is reported.
                    let shortfall = reference.saturating_sub(est as u128);
                    let rounding_only = shortfall > 0 && shortfall <= (reference >> 40).max(1) && reference >= (1 << 40);
                    let class = if rounding_only {
                        "below-compounding:f64-rounding"
                    } else {
                        "below-compounding"
                    };
                    ctx.check("C35", class, est as u128 >= reference, || {
                        format!("estimate {est} < compounded {reference} (exec={exec} da={da} pcts {exec_pct}/{da_pct} horizon={blocks})")
                    });
                    if horizon > 0 && horizon <= 40 && !extreme_prices {
                        issued.push((target, est));
                    }
                }
            }
            // realised price vs earlier estimates: statistic only (the property speaks about the
            // function of the current price, not about the scaled internal price)
            let now_h = upd.l2_block_height;
            let price = upd.algorithm().calculate();
            let mut exceeded = 0;
            issued.retain(|(t, est)| {
                if *t == now_h && price > *est {
                    exceeded += 1;
                }
                *t > now_h
            });
            if exceeded > 0 {
                ctx.probe_n("realised_price_above_earlier_estimate(info)", exceeded);
            }
        }
        ctx.sim_ms += steps * 1000;
    }
}

fn check_bounds(ctx: &mut Ctx, upd: &AlgorithmUpdaterV1, min_exec: u64, min_da: u64, max_da: u64) {
    ctx.check("C34", "exec-below-min", upd.new_scaled_exec_price >= min_exec, || {
        format!("scaled exec price {} < min {min_exec}", upd.new_scaled_exec_price)
    });
    ctx.check(
        "C34",
        "da-out-of-bounds",
        upd.new_scaled_da_gas_price >= min_da && upd.new_scaled_da_gas_price <= max_da,
        || format!("scaled da price {} outside [{min_da},{max_da}]", upd.new_scaled_da_gas_price),
    );
    // descaled prices as exposed by algorithm(): bounds only
    let f = upd.gas_price_factor.get();
    let alg_total = upd.algorithm().calculate();
    let lower = (min_exec / f).saturating_add(min_da / f);
    ctx.check("C34", "exposed-price-below-min", alg_total >= lower, || {
        format!("exposed price {alg_total} < min exec + min da = {lower}")
    });
}

fn check_da_rate(
    ctx: &mut Ctx,
    before: &AlgorithmUpdaterV1,
    after: &AlgorithmUpdaterV1,
    min_da: u64,
    max_da: u64,
    which: &str,
) {
    let prev = before.new_scaled_da_gas_price as u128;
    let new = after.new_scaled_da_gas_price as u128;
    let ch = prev * before.max_da_gas_price_change_percent as u128 / 100;
    let within = new <= prev + ch && new + ch >= prev;
    let on_bound = after.new_scaled_da_gas_price == min_da || after.new_scaled_da_gas_price == max_da;
    if on_bound && !within {
        ctx.probe("da_clamped_to_bound");
    }
    ctx.check("C34", &format!("da-rate-{which}"), within || on_bound, || {
        format!(
            "da price moved {prev} -> {new}, allowed change {ch} (pct {})",
            before.max_da_gas_price_change_percent
        )
    });
}

fn main() {
    simkit::cli::main_world(&Gas)
}
