//! Construction of valid `PoolTransaction`s (what `Verification` hands to the pool in the real
//! service) and the harness-side summary of a transaction, derived only from its own
//! inputs/outputs/policies.

use fuel_core_types::{
    fuel_tx::{
        Address,
        AssetId,
        BlobBody,
        BlobId,
        BlobIdExt,
        ConsensusParameters,
        Contract,
        ContractId,
        FeeParameters,
        Finalizable,
        GasCosts,
        Input,
        Output,
        Transaction,
        TransactionBuilder,
        TxId,
        TxPointer,
        UtxoId,
        field::BlobId as _,
        input::{
            coin::{
                CoinPredicate,
                CoinSigned,
            },
            message::{
                MessageCoinPredicate,
                MessageCoinSigned,
                MessageDataPredicate,
                MessageDataSigned,
            },
        },
    },
    fuel_types::{
        BlockHeight,
        Nonce,
    },
    fuel_vm::checked_transaction::IntoChecked,
    services::txpool::{
        ArcPoolTx,
        Metadata,
        PoolTransaction,
    },
};
use std::sync::Arc;

pub fn consensus_params() -> ConsensusParameters {
    let mut cp = ConsensusParameters::standard();
    cp.set_gas_costs(GasCosts::free());
    cp.set_fee_params(FeeParameters::DEFAULT.with_gas_per_byte(1));
    cp
}

pub fn owner(ix: u8) -> Address {
    let mut b = [0x11u8; 32];
    b[0] = 0xA0 + ix;
    b.into()
}

#[derive(Clone, Debug, PartialEq, Eq)]
pub struct CoinIn {
    pub utxo: UtxoId,
    pub owner: Address,
    pub amount: u64,
    pub asset: AssetId,
}

#[derive(Clone, Debug, PartialEq, Eq)]
pub struct MsgIn {
    pub nonce: Nonce,
    pub sender: Address,
    pub recipient: Address,
    pub amount: u64,
    pub data: Vec<u8>,
}

#[derive(Clone, Debug)]
pub enum InSpec {
    Coin(CoinIn),
    Msg(MsgIn),
    Contract(ContractId),
}

#[derive(Clone, Debug)]
pub enum OutSpec {
    Coin { to: Address, amount: u64 },
    Change { to: Address },
    Variable,
}

#[derive(Clone, Debug)]
pub enum Kind {
    Script,
    Create { code: u8 },
    Blob { payload: u8 },
}

#[derive(Clone, Debug)]
pub struct TxSpec {
    pub kind: Kind,
    pub inputs: Vec<InSpec>,
    pub outputs: Vec<OutSpec>,
    pub tip: u64,
    pub script_gas_limit: u64,
    pub expiration: Option<u32>,
    /// Metered size reported to the pool (`Metadata::size`).
    pub declared_size: usize,
    /// `Metadata::max_gas_price` (derived from max fee by the real verification).
    pub max_gas_price: u64,
    /// Extra witness bytes: changes the id without changing inputs/outputs.
    pub salt: u8,
}

/// Everything the harness knows about one transaction; computed from the transaction itself.
#[derive(Clone)]
pub struct TxRec {
    pub id: TxId,
    /// Serial number in order of generation (short names in the trace).
    pub n: usize,
    pub pool_tx: ArcPoolTx,
    pub coins: Vec<CoinIn>,
    pub msgs: Vec<MsgIn>,
    pub contracts_in: Vec<ContractId>,
    pub outputs: Vec<Output>,
    pub created: Vec<ContractId>,
    pub blob: Option<BlobId>,
    pub tip: u64,
    pub gas: u64,
    pub size: u64,
    pub price: u64,
    pub expiration: u32,
}

impl TxRec {
    pub fn raw(&self) -> Transaction {
        Transaction::from(self.pool_tx.as_ref())
    }
    pub fn spends_coin(&self, u: &UtxoId) -> bool {
        self.coins.iter().any(|c| &c.utxo == u)
    }
    pub fn spends_msg(&self, n: &Nonce) -> bool {
        self.msgs.iter().any(|m| &m.nonce == n)
    }
    /// The two transactions cannot both be valid: shared coin, message, contract creation or blob.
    pub fn conflicts_with(&self, other: &TxRec) -> Option<String> {
        for c in &self.coins {
            if other.spends_coin(&c.utxo) {
                return Some(format!("coin {}", utxo_str(&c.utxo)));
            }
        }
        for m in &self.msgs {
            if other.spends_msg(&m.nonce) {
                return Some(format!("message {}", nonce_str(&m.nonce)));
            }
        }
        for c in &self.created {
            if other.created.contains(c) {
                return Some(format!("contract-creation {}", short(c.as_ref())));
            }
        }
        if let (Some(a), Some(b)) = (&self.blob, &other.blob) {
            if a == b {
                return Some(format!("blob {}", short(a.as_ref())));
            }
        }
        None
    }
}

pub fn short(b: &[u8]) -> String {
    format!("{:02x}{:02x}{:02x}", b[0], b[1], b[2])
}
pub fn utxo_str(u: &UtxoId) -> String {
    format!("{}:{}", short(u.tx_id().as_ref()), u.output_index())
}
pub fn nonce_str(n: &Nonce) -> String {
    format!("m{}", short(n.as_ref()))
}

pub fn contract_code(code: u8) -> Vec<u8> {
    vec![code, 2, 3, 4]
}
pub fn contract_id_of(code: u8) -> ContractId {
    let contract: Contract = contract_code(code).into();
    Contract::id(&Default::default(), &contract.root(), &Contract::default_state_root())
}
pub fn blob_payload(p: u8) -> Vec<u8> {
    vec![p; 24]
}
pub fn blob_id_of(p: u8) -> BlobId {
    BlobId::compute(&blob_payload(p))
}

/// The summary of a pool transaction, from its public accessors only.
pub fn summarise(n: usize, pool_tx: ArcPoolTx) -> TxRec {
    let mut coins = Vec::new();
    let mut msgs = Vec::new();
    let mut contracts_in = Vec::new();
    for input in pool_tx.inputs() {
        match input {
            Input::CoinSigned(CoinSigned {
                utxo_id,
                owner,
                amount,
                asset_id,
                ..
            })
            | Input::CoinPredicate(CoinPredicate {
                utxo_id,
                owner,
                amount,
                asset_id,
                ..
            }) => coins.push(CoinIn {
                utxo: *utxo_id,
                owner: *owner,
                amount: *amount,
                asset: *asset_id,
            }),
            Input::MessageCoinSigned(MessageCoinSigned {
                sender,
                recipient,
                amount,
                nonce,
                ..
            })
            | Input::MessageCoinPredicate(MessageCoinPredicate {
                sender,
                recipient,
                amount,
                nonce,
                ..
            }) => msgs.push(MsgIn {
                nonce: *nonce,
                sender: *sender,
                recipient: *recipient,
                amount: *amount,
                data: vec![],
            }),
            Input::MessageDataSigned(MessageDataSigned {
                sender,
                recipient,
                amount,
                nonce,
                data,
                ..
            })
            | Input::MessageDataPredicate(MessageDataPredicate {
                sender,
                recipient,
                amount,
                nonce,
                data,
                ..
            }) => msgs.push(MsgIn {
                nonce: *nonce,
                sender: *sender,
                recipient: *recipient,
                amount: *amount,
                data: data.to_vec(),
            }),
            Input::Contract(c) => contracts_in.push(c.contract_id),
        }
    }
    let outputs = pool_tx.outputs().clone();
    let created = outputs
        .iter()
        .filter_map(|o| match o {
            Output::ContractCreated { contract_id, .. } => Some(*contract_id),
            _ => None,
        })
        .collect();
    let blob = match pool_tx.as_ref() {
        PoolTransaction::Blob(checked, _) => Some(*checked.transaction().blob_id()),
        _ => None,
    };
    TxRec {
        id: pool_tx.id(),
        n,
        coins,
        msgs,
        contracts_in,
        outputs,
        created,
        blob,
        tip: pool_tx.tip(),
        gas: pool_tx.max_gas(),
        size: pool_tx.metered_bytes_size() as u64,
        price: pool_tx.max_gas_price(),
        expiration: *pool_tx.expiration(),
        pool_tx,
    }
}

fn add_common<Tx>(b: &mut TransactionBuilder<Tx>, spec: &TxSpec, signer_witness: u16)
where
    Tx: fuel_core_types::fuel_tx::Buildable,
{
    let mut contract_input_ix = Vec::new();
    for (i, input) in spec.inputs.iter().enumerate() {
        match input {
            InSpec::Coin(c) => {
                b.add_input(Input::coin_signed(
                    c.utxo,
                    c.owner,
                    c.amount,
                    c.asset,
                    TxPointer::default(),
                    signer_witness,
                ));
            }
            InSpec::Msg(m) => {
                if m.data.is_empty() {
                    b.add_input(Input::message_coin_signed(
                        m.sender,
                        m.recipient,
                        m.amount,
                        m.nonce,
                        signer_witness,
                    ));
                } else {
                    b.add_input(Input::message_data_signed(
                        m.sender,
                        m.recipient,
                        m.amount,
                        m.nonce,
                        signer_witness,
                        m.data.clone(),
                    ));
                }
            }
            InSpec::Contract(id) => {
                b.add_input(Input::contract(
                    UtxoId::new([0xCC; 32].into(), 0),
                    Default::default(),
                    Default::default(),
                    TxPointer::default(),
                    *id,
                ));
                contract_input_ix.push(i as u16);
            }
        }
    }
    for o in &spec.outputs {
        match o {
            OutSpec::Coin { to, amount } => {
                b.add_output(Output::coin(*to, *amount, AssetId::BASE));
            }
            OutSpec::Change { to } => {
                b.add_output(Output::change(*to, 0, AssetId::BASE));
            }
            OutSpec::Variable => {
                b.add_output(Output::variable(Address::zeroed(), 0, AssetId::zeroed()));
            }
        }
    }
    for ix in contract_input_ix {
        b.add_output(Output::contract(ix, Default::default(), Default::default()));
    }
    b.tip(spec.tip);
    b.max_fee_limit(0);
    if let Some(e) = spec.expiration {
        b.expiration(BlockHeight::new(e));
    }
}

/// Builds the `PoolTransaction` exactly like the real verification pipeline does
/// (`into_checked_basic` + `Metadata::new`), minus signature/predicate checks.
pub fn build(
    n: usize,
    spec: &TxSpec,
    cp: &ConsensusParameters,
    next_height: u32,
) -> Result<TxRec, String> {
    let height = BlockHeight::new(next_height);
    let meta = Metadata::new(0, spec.declared_size, spec.max_gas_price);
    let salt_witness: Vec<u8> = vec![spec.salt; spec.salt as usize % 5];
    let pool_tx = match &spec.kind {
        Kind::Script => {
            let mut b = TransactionBuilder::script(vec![], vec![]);
            b.with_params(cp.clone());
            b.script_gas_limit(spec.script_gas_limit);
            b.add_witness(salt_witness.into());
            add_common(&mut b, spec, 0);
            let tx = b.finalize();
            let checked = tx
                .into_checked_basic(height, cp)
                .map_err(|e| format!("{e:?}"))?;
            PoolTransaction::Script(checked, meta)
        }
        Kind::Create { code } => {
            let code_bytes = contract_code(*code);
            let id = contract_id_of(*code);
            let mut b = TransactionBuilder::create(
                code_bytes.into(),
                Default::default(),
                Default::default(),
            );
            b.with_params(cp.clone());
            b.add_witness(salt_witness.into());
            add_common(&mut b, spec, 1);
            b.add_output(Output::contract_created(id, Contract::default_state_root()));
            let tx = b.finalize();
            let checked = tx
                .into_checked_basic(height, cp)
                .map_err(|e| format!("{e:?}"))?;
            PoolTransaction::Create(checked, meta)
        }
        Kind::Blob { payload } => {
            let bytes = blob_payload(*payload);
            let mut b = TransactionBuilder::blob(BlobBody {
                id: BlobId::compute(&bytes),
                witness_index: 0,
            });
            b.with_params(cp.clone());
            b.add_witness(bytes.into());
            b.add_witness(salt_witness.into());
            add_common(&mut b, spec, 1);
            let tx = b.finalize();
            let checked = tx
                .into_checked_basic(height, cp)
                .map_err(|e| format!("{e:?}"))?;
            PoolTransaction::Blob(checked, meta)
        }
    };
    Ok(summarise(n, Arc::new(pool_tx)))
}
