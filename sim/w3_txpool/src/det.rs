//! Deterministic `std::collections::hash_map::RandomState`.
//!
//! The txpool iterates over `HashMap`/`HashSet`s in a few places where the order is visible
//! (order in which the transactions of an imported block are marked as spent in the LRU, order in
//! which pending transactions waiting for the same input are re-inserted, order of rollbacks).
//! std seeds `RandomState` once per thread from the `getrandom` libc symbol (weak linkage, resolved
//! at link time), then increments the key for every new map. This binary defines `getrandom`
//! itself: while a run is active it returns a byte stream derived from a tape value, otherwise it
//! forwards to the raw syscall. Every run executes on a fresh thread, so the per-thread keys are
//! a pure function of the tape, independent of how many runs the process executed before.
//! (Same mechanism as the simulated wall clock in `simkit::clock`.)

use std::sync::atomic::{
    AtomicBool,
    AtomicU64,
    Ordering,
};

static ON: AtomicBool = AtomicBool::new(false);
static SEED: AtomicU64 = AtomicU64::new(0);
static CTR: AtomicU64 = AtomicU64::new(0);

fn splitmix(mut x: u64) -> u64 {
    x = x.wrapping_add(0x9E3779B97F4A7C15);
    let mut z = x;
    z = (z ^ (z >> 30)).wrapping_mul(0xBF58476D1CE4E5B9);
    z = (z ^ (z >> 27)).wrapping_mul(0x94D049BB133111EB);
    z ^ (z >> 31)
}

#[unsafe(no_mangle)]
pub unsafe extern "C" fn getrandom(
    buf: *mut libc::c_void,
    len: libc::size_t,
    flags: libc::c_uint,
) -> libc::ssize_t {
    if ON.load(Ordering::SeqCst) && !buf.is_null() {
        let seed = SEED.load(Ordering::SeqCst);
        let p = buf as *mut u8;
        let mut i = 0usize;
        while i < len {
            let c = CTR.fetch_add(1, Ordering::SeqCst);
            let v = splitmix(seed ^ c.wrapping_mul(0xD6E8FEB86659FD93)).to_le_bytes();
            let mut k = 0;
            while k < 8 && i < len {
                unsafe { *p.add(i) = v[k] };
                i += 1;
                k += 1;
            }
        }
        return len as libc::ssize_t;
    }
    unsafe { libc::syscall(libc::SYS_getrandom, buf, len, flags) as libc::ssize_t }
}

/// Runs `f` on a fresh thread whose hash seeds are derived from `seed`. A panic inside `f`
/// is re-raised on the calling thread (the panic hook already ran on the inner thread).
pub fn run_seeded<R: Send>(seed: u64, f: impl FnOnce() -> R + Send) -> R {
    SEED.store(seed, Ordering::SeqCst);
    CTR.store(0, Ordering::SeqCst);
    // debugging aid: W3_NO_DET_HASH=1 leaves std's random hash seeds in place (used once to
    // show that the determinism proof then fails)
    ON.store(std::env::var_os("W3_NO_DET_HASH").is_none(), Ordering::SeqCst);
    let res = std::thread::scope(|s| {
        std::thread::Builder::new()
            .name("w3-run".into())
            .stack_size(32 << 20)
            .spawn_scoped(s, f)
            .expect("spawn run thread")
            .join()
    });
    ON.store(false, Ordering::SeqCst);
    match res {
        Ok(r) => r,
        Err(payload) => std::panic::resume_unwind(payload),
    }
}
