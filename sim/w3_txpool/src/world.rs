//! Simulation state, the worker step with its model transition, and the oracles.
//!
//! The harness model is event sourced: the recording `TxStatusManager` port yields, per worker
//! step, the ordered list of admissions (`Submitted`) and squeeze-out reports; together with
//! the operation that was executed (extraction result, block content, preconfirmation) they
//! determine which transactions the pool must hold. Every clause is then evaluated on data the
//! harness recomputes from the transactions' own inputs and outputs; pool internals are only
//! read to observe (ids held, stats, dependency edges, spent marks).

use crate::{
    chain::{
        CoinRec,
        SimDb,
        SimDbProvider,
    },
    tsm::{
        RecordingTsm,
        TsmEvent,
    },
    txs::{
        self,
        TxRec,
        TxSpec,
        nonce_str,
        utxo_str,
    },
};
use fuel_core_txpool::{
    Constraints,
    config::{
        BlackList,
        Config,
        HeavyWorkConfig,
        PoolLimits,
        ServiceChannelLimits,
    },
    error::{
        Error as PoolError,
        InputValidationError,
    },
    verif_api::{
        Notification,
        Worker,
    },
};
use fuel_core_types::{
    blockchain::{
        block::Block,
        consensus::Sealed,
    },
    fuel_tx::{
        ConsensusParameters,
        ContractId,
        Output,
        TxId,
        TxPointer,
        UtxoId,
    },
    fuel_types::{
        BlockHeight,
        Nonce,
    },
    services::{
        block_importer::ImportResult,
        executor::{
            TransactionExecutionResult,
            TransactionExecutionStatus,
        },
        transaction_status::{
            PreConfirmationStatus,
            statuses,
        },
        txpool::ArcPoolTx,
    },
};
use simkit::Ctx;
use std::{
    collections::{
        BTreeMap,
        BTreeSet,
        VecDeque,
    },
    sync::Arc,
    time::Duration,
};
use tokio::sync::oneshot;

#[derive(Clone, Copy, Debug, PartialEq, Eq, PartialOrd, Ord)]
pub enum RKey {
    Coin(UtxoId),
    Msg(Nonce),
}

impl RKey {
    pub fn show(&self) -> String {
        match self {
            RKey::Coin(u) => utxo_str(u),
            RKey::Msg(n) => nonce_str(n),
        }
    }
}

/// A transaction handed out for a block (extracted locally or preconfirmed by the producer)
/// whose fate is not settled yet.
#[derive(Clone, Debug, Default)]
pub struct Handed {
    pub extracted: bool,
    pub preconfirmed: bool,
    /// the pool saw the transaction itself (it was pooled when handed out), so it knows
    /// which inputs it spends; false for preconfirmations of transactions it never held
    pub inputs_known: bool,
    /// extracted while an earlier preconfirmation of the same id was still unresolved: a
    /// rollback of that preconfirmation says nothing about this extraction
    pub late_extraction: bool,
    /// Spendable outputs the pool may know of: `Some(rec)` when the fields are known
    /// (coin output of the body, or resolved by a preconfirmation), `None` when only the
    /// existence is plausible.
    pub coins: BTreeMap<u16, Option<CoinRec>>,
    pub contracts: Vec<ContractId>,
}

#[derive(Clone, Debug)]
pub struct Knobs {
    pub max_txs: usize,
    pub max_gas: u64,
    pub max_bytes: usize,
    pub chain_count: usize,
    pub pending_pct: u16,
    pub pending_ttl_ms: u64,
    pub tx_ttl_ms: u64,
    pub n_coins: usize,
    pub n_msgs: usize,
    pub steps: u64,
    /// percent of worker steps with an armed DB fault (0 = fault-free run)
    pub db_fault_pct: u64,
    /// adversarial deliveries (stale blocks, bogus expiry ids, duplicate preconfirmations)
    pub adversarial: bool,
    pub p_multi_input: u64,
    pub p_dependent: u64,
    pub p_collide: u64,
    pub p_conflict_handed: u64,
    pub p_batch: u64,
    pub w_actions: [u64; 7],
    /// percent of generated transactions that join coin outputs of several pooled
    /// transactions (a node with more than one pooled parent); 0 = off
    pub p_join: u64,
    /// percent: rivals of pooled transactions that keep one contested resource (blob id,
    /// coin) and fund themselves from another pooled transaction's input, more blob
    /// uploads; 0 = off
    pub p_rival: u64,
}

pub struct ExtractReq {
    pub max_gas: u64,
    pub max_txs: u16,
    pub max_size: u32,
    pub min_price: u64,
    pub excluded: BTreeSet<ContractId>,
    pub rx: oneshot::Receiver<Vec<ArcPoolTx>>,
}

#[derive(Clone, Debug)]
pub enum PreconfKind {
    Success,
    Failure,
    SqueezedOut,
}

#[derive(Clone, Debug)]
pub struct PreconfReq {
    pub tx: TxId,
    pub kind: PreconfKind,
    pub height: u32,
    pub outputs: Option<Vec<(UtxoId, Output)>>,
}

#[derive(Clone, Debug)]
pub enum UpdateReq {
    Block {
        height: u32,
        ids: Vec<TxId>,
        /// a re-delivery of an already imported height (DB untouched)
        stale: bool,
    },
    Expired(Vec<TxId>),
}

pub enum ReadReq {
    TxIds(usize, oneshot::Receiver<Vec<TxId>>),
    NonExisting(Vec<TxId>, oneshot::Receiver<Vec<TxId>>),
    Txs(Vec<TxId>, fuel_core_txpool::verif_api::TxsAnswer),
}

pub struct Sim<'a> {
    pub ctx: &'a mut Ctx,
    pub k: Knobs,
    pub cp: ConsensusParameters,
    pub rt: tokio::runtime::Runtime,
    pub worker: Worker<SimDb, RecordingTsm>,
    pub tsm: Arc<RecordingTsm>,
    pub db: SimDb,
    // ---- everything the parties ever created ----
    pub txs: BTreeMap<TxId, TxRec>,
    pub specs: BTreeMap<TxId, TxSpec>,
    pub order: Vec<TxId>,
    pub unsubmitted: Vec<TxId>,
    /// not yet submitted transactions whose outputs some submitted child waits for
    pub awaited: Vec<TxId>,
    // ---- model ----
    pub pool: BTreeSet<TxId>,
    /// child -> parents, fixed at admission (as the pool's graph does)
    pub parents: BTreeMap<TxId, BTreeSet<TxId>>,
    pub handed: BTreeMap<TxId, Handed>,
    pub unsettled: BTreeMap<RKey, TxId>,
    pub tentative: BTreeMap<u32, BTreeSet<TxId>>,
    pub tip: u32,
    /// distinct keys the pool was asked to remember as spent (upper bound on LRU content)
    pub lru_keys: BTreeSet<(u8, [u8; 34])>,
    pub committed_from_pool: BTreeSet<TxId>,
    /// transactions that kept an input whose creator vanished (after a recorded known
    /// finding): excluded from follow-up clauses so that one defect is counted once
    pub tainted: BTreeSet<TxId>,
    // ---- parties ----
    pub pruner_times: VecDeque<(i64, TxId)>,
    pub height_exp: BTreeMap<u32, Vec<TxId>>,
    pub expect_resubmit: Vec<TxId>,
    /// Conservative view of the pool's spent marks: which handed-out transactions may still
    /// have an input marked as spent (cleared only when the pool provably clears it). Used to
    /// decide whether a "already spent" answer can be blamed on a transaction's own history.
    pub claims: BTreeMap<RKey, BTreeSet<TxId>>,
    /// pooled transactions that lost a dependent to a preconfirmation while staying pooled
    /// themselves (the preconfirmation of the parent was lost)
    pub lost_child_to_preconf: BTreeSet<TxId>,
    /// pooled transactions that lost a dependent to a block while staying pooled themselves
    /// (only possible for contract dependencies: the contract also exists on chain)
    pub lost_child_to_block: BTreeSet<TxId>,
    /// extracted while an older preconfirmation of the same id was unresolved, and the
    /// extraction itself is not settled yet (see `Handed::late_extraction`)
    pub late_extracted: BTreeSet<TxId>,
    pub resolutions: BTreeMap<TxId, BTreeMap<u16, CoinRec>>,
    pub last_block: Option<(u32, Vec<TxId>)>,
    // ---- queue mirrors ----
    pub q_extract: VecDeque<ExtractReq>,
    pub q_preconf: VecDeque<PreconfReq>,
    pub q_update: VecDeque<UpdateReq>,
    pub q_read: VecDeque<ReadReq>,
    pub q_insert: VecDeque<TxId>,
    pub worker_steps: u64,
    /// the preconfirmation of the current step was at or below the canonical tip
    pub stale_preconf: bool,
    /// a pooled transaction named by a squeezed-out preconfirmation in the current step
    pub direct_skip: Option<TxId>,
    /// contracts announced only by preconfirmations of transactions that just were withdrawn
    pub gone_contracts: BTreeMap<TxId, Vec<ContractId>>,
    /// coin-like outputs advertised by preconfirmations (for the "withdrawn" clause)
    pub advertised: BTreeMap<TxId, BTreeMap<u16, CoinRec>>,
    /// a clause failed (violation or known finding): the model may no longer describe the
    /// pool, the history ends after this step
    pub stop: bool,
}

/// Failing clauses after which the model still describes the pool exactly.
const HARMLESS: &[&str] = &["order:tip-plus-one-key"];

fn lru_key_coin(u: &UtxoId) -> (u8, [u8; 34]) {
    let mut b = [0u8; 34];
    b[..32].copy_from_slice(u.tx_id().as_ref());
    b[32..].copy_from_slice(&u.output_index().to_be_bytes());
    (0, b)
}
fn lru_key_msg(n: &Nonce) -> (u8, [u8; 34]) {
    let mut b = [0u8; 34];
    b[..32].copy_from_slice(n.as_ref());
    (1, b)
}
fn lru_key_tx(t: &TxId) -> (u8, [u8; 34]) {
    let mut b = [0u8; 34];
    b[..32].copy_from_slice(t.as_ref());
    (2, b)
}

pub fn make_config(k: &Knobs) -> Config {
    Config {
        utxo_validation: true,
        allow_syscall: true,
        max_txs_chain_count: k.chain_count,
        pool_limits: PoolLimits {
            max_txs: k.max_txs,
            max_gas: k.max_gas,
            max_bytes_size: k.max_bytes,
        },
        service_channel_limits: ServiceChannelLimits {
            max_pending_write_pool_requests: 1000,
            max_pending_read_pool_requests: 1000,
        },
        ttl_check_interval: Duration::from_secs(60),
        max_txs_ttl: Duration::from_millis(k.tx_ttl_ms),
        heavy_work: HeavyWorkConfig {
            number_threads_to_verify_transactions: 0,
            size_of_verification_queue: 100,
            number_threads_p2p_sync: 0,
            size_of_p2p_sync_queue: 100,
        },
        black_list: BlackList::default(),
        pending_pool_tx_ttl: Duration::from_millis(k.pending_ttl_ms),
        max_pending_pool_size_percentage: k.pending_pct,
        metrics: false,
    }
}

/// a/b > c/d with exact arithmetic (b, d > 0)
fn ratio_lt(a: u64, b: u64, c: u64, d: u64) -> bool {
    (a as u128) * (d as u128) < (c as u128) * (b as u128)
}

#[derive(Default)]
struct StepFacts {
    /// left the pool in this step because they were handed out / committed / preconfirmed
    included: BTreeSet<TxId>,
    extracted: Vec<TxId>,
    committed: BTreeSet<TxId>,
    preconfirmed: BTreeSet<TxId>,
    /// left (the pool or the handed-out state) for a reason other than inclusion
    gone: BTreeMap<TxId, &'static str>,
    rolled_back: Vec<(TxId, bool)>,
    /// dependents recorded (graph edges) for pooled transactions at the moment they left
    gone_children: BTreeMap<TxId, BTreeSet<TxId>>,
    squeezed: BTreeSet<TxId>,
    db_fault: bool,
}

impl<'a> Sim<'a> {
    /// One oracle clause. Any failing clause (violation of any property of this world, or a
    /// recorded known finding) ends the history after the current step, because the model is
    /// kept in sync with a pool that obeys the clauses.
    pub fn chk(
        &mut self,
        prop: &str,
        class: &str,
        cond: bool,
        detail: impl FnOnce() -> String,
    ) -> bool {
        let r = self.ctx.check(prop, class, cond, detail);
        if !cond && !HARMLESS.contains(&class) {
            self.stop = true;
        }
        r
    }

    pub fn name(&self, id: &TxId) -> String {
        match self.txs.get(id) {
            Some(t) => format!("t{}", t.n),
            None => format!("x{}", txs::short(id.as_ref())),
        }
    }
    pub fn names<'b>(&self, ids: impl IntoIterator<Item = &'b TxId>) -> String {
        let mut v: Vec<String> = ids.into_iter().map(|i| self.name(i)).collect();
        v.sort();
        v.join(",")
    }
    fn names_in_order<'b>(&self, ids: impl IntoIterator<Item = &'b TxId>) -> String {
        let v: Vec<String> = ids.into_iter().map(|i| self.name(i)).collect();
        v.join(",")
    }
    pub fn utxo_name(&self, u: &UtxoId) -> String {
        match self.txs.get(u.tx_id()) {
            Some(t) => format!("t{}:{}", t.n, u.output_index()),
            None => utxo_str(u),
        }
    }
    pub fn key_name(&self, k: &RKey) -> String {
        match k {
            RKey::Coin(u) => self.utxo_name(u),
            RKey::Msg(_) => k.show(),
        }
    }

    pub fn real_pool_ids(&self) -> BTreeSet<TxId> {
        self.worker.pool_tx_ids().into_iter().collect()
    }

    /// Live spendable output of a handed-out transaction.
    fn handed_coin(&self, u: &UtxoId) -> Option<&Option<CoinRec>> {
        self.handed
            .get(u.tx_id())
            .and_then(|h| h.coins.get(&u.output_index()))
    }

    fn handed_contract(&self, c: &ContractId, except: Option<&TxId>) -> bool {
        self.handed
            .iter()
            .any(|(id, h)| Some(id) != except && h.contracts.contains(c))
    }

    fn note_spent_keys(&mut self, id: &TxId) {
        self.lru_keys.insert(lru_key_tx(id));
        if let Some(t) = self.txs.get(id) {
            for c in &t.coins {
                self.lru_keys.insert(lru_key_coin(&c.utxo));
            }
            for m in &t.msgs {
                self.lru_keys.insert(lru_key_msg(&m.nonce));
            }
        }
    }

    fn lru_capacity(&self) -> usize {
        self.k.max_txs + 1
    }

    fn hand_out(&mut self, id: &TxId, extracted: bool, preconfirmed: bool) {
        let t = self.txs.get(id).cloned();
        let pending_preconf = self.tentative.values().any(|s| s.contains(id));
        let h = self.handed.entry(*id).or_default();
        if extracted && pending_preconf {
            h.late_extraction = true;
            self.late_extracted.insert(*id);
        }
        h.extracted |= extracted;
        h.preconfirmed |= preconfirmed;
        h.inputs_known = true;
        if let Some(t) = t {
            for (i, o) in t.outputs.iter().enumerate() {
                match o {
                    Output::Coin {
                        to,
                        amount,
                        asset_id,
                    } => {
                        h.coins.entry(i as u16).or_insert(Some(CoinRec {
                            owner: *to,
                            amount: *amount,
                            asset: *asset_id,
                        }));
                    }
                    Output::ContractCreated { contract_id, .. } => {
                        if !h.contracts.contains(contract_id) {
                            h.contracts.push(*contract_id);
                        }
                    }
                    _ => {}
                }
            }
            for c in &t.coins {
                self.unsettled.insert(RKey::Coin(c.utxo), *id);
            }
            for m in &t.msgs {
                self.unsettled.insert(RKey::Msg(m.nonce), *id);
            }
            for c in &t.coins {
                self.claims.entry(RKey::Coin(c.utxo)).or_default().insert(*id);
            }
            for m in &t.msgs {
                self.claims.entry(RKey::Msg(m.nonce)).or_default().insert(*id);
            }
        }
        self.note_spent_keys(id);
    }

    fn settle(&mut self, id: &TxId) {
        self.handed.remove(id);
        self.unsettled.retain(|_, s| s != id);
    }

    fn release_claims(&mut self, id: &TxId) {
        for s in self.claims.values_mut() {
            s.remove(id);
        }
    }

    /// The handed-out transaction will not be included: its outputs are withdrawn.
    fn settle_gone(&mut self, id: &TxId) {
        if let Some(h) = self.handed.get(id) {
            if !h.contracts.is_empty() {
                self.gone_contracts.insert(*id, h.contracts.clone());
            }
        }
        self.settle(id);
    }

    fn model_remove(&mut self, id: &TxId) {
        self.pool.remove(id);
        self.parents.remove(id);
        for ps in self.parents.values_mut() {
            ps.remove(id);
        }
    }

    fn children_of(&self, id: &TxId) -> Vec<TxId> {
        self.parents
            .iter()
            .filter(|(c, ps)| ps.contains(id) && self.pool.contains(*c))
            .map(|(c, _)| *c)
            .collect()
    }

    /// `id` and everything that transitively depends on it (model edges).
    fn subtree(&self, id: &TxId) -> BTreeSet<TxId> {
        let mut out = BTreeSet::new();
        let mut todo = vec![*id];
        while let Some(x) = todo.pop() {
            if out.insert(x) {
                todo.extend(self.children_of(&x));
            }
        }
        out
    }

    // =====================================================================================
    // the worker step
    // =====================================================================================

    /// Executes one `PoolWorker::run` iteration and evaluates every oracle on its outcome.
    pub fn worker_step(&mut self) {
        if self.ctx.failed() {
            return;
        }
        let lens = self.worker.queue_lens();
        let branch = if lens[0] > 0 {
            0
        } else if lens[1] > 0 {
            1
        } else if lens[2] > 0 {
            2
        } else if lens[3] > 0 {
            3
        } else if lens[4] > 0 {
            4
        } else {
            5
        };
        assert_eq!(lens[0], self.q_extract.len(), "extract queue mirror");
        assert_eq!(lens[1], self.q_preconf.len(), "preconf queue mirror");
        assert_eq!(lens[2], self.q_update.len(), "update queue mirror");
        assert_eq!(lens[3], self.q_read.len(), "read queue mirror");
        assert!(lens[4] >= self.q_insert.len(), "insert queue mirror");

        // fault arming
        let mut fail_read = 0;
        let mut fail_view = 0;
        if self.k.db_fault_pct > 0
            && matches!(branch, 1 | 2 | 4)
            && self.ctx.tape.chance(self.k.db_fault_pct, 100)
        {
            if self.ctx.tape.chance(1, 4) {
                fail_view = 1 + self.ctx.tape.choose(2);
            } else {
                fail_read = 1 + self.ctx.tape.choose(6);
            }
        }
        self.db.arm(fail_read, fail_view);

        let pending_before = self.worker.pending_pool_counters().0;
        let before_real = self.real_pool_ids();
        assert_eq!(before_real, self.pool, "model pool out of sync before step");
        let fp_before = if branch == 1 { Some(self.fingerprint()) } else { None };
        self.worker_steps += 1;
        let (scope, label) = match branch {
            0 => ("C18", "extract"),
            1 => ("C20", "preconf"),
            2 => ("C20", "update"),
            3 => ("C16", "read"),
            4 => ("C19", "insert"),
            _ => ("C16", "tick"),
        };
        self.ctx.scope(scope);
        self.ctx.ev(format!(
            "step#{} {label} queues={lens:?} fault(read@{fail_read},view@{fail_view})",
            self.worker_steps
        ));
        let worker = &mut self.worker;
        let cont = self.rt.block_on(async { worker.step().await });
        assert!(cont, "worker stopped");
        let fired = self.db.disarm();
        if fired > 0 {
            self.ctx.fault("db_read_error");
        }
        let events = self.tsm.take_events();
        let notes = self.worker.drain_notifications();
        let pending_after = self.worker.pending_pool_counters().0;
        if pending_after > pending_before {
            self.ctx.probe("pending_pool_parked");
        }
        if pending_after < pending_before {
            if branch == 5 {
                self.ctx.probe("pending_pool_expired");
            } else {
                self.ctx.probe("pending_pool_resolved");
            }
        }
        let mut f = StepFacts {
            db_fault: fired > 0,
            ..Default::default()
        };

        match branch {
            0 => self.after_extract(&mut f),
            1 => self.after_preconf_begin(&mut f),
            2 => self.after_update_begin(&mut f),
            3 => self.after_read(),
            4 => {
                let n = lens[4];
                let mine = self.q_insert.len().min(n);
                let ids: Vec<TxId> = self.q_insert.drain(..mine).collect();
                if n > mine {
                    self.ctx.probe("pending_resolved_via_queue");
                }
                if n > 1 {
                    self.ctx.probe("insert_batch");
                }
                self.ctx
                    .ev(format!("  inserts={} (+{} resolved)", self.names_in_order(&ids), n - mine));
            }
            _ => {
                self.ctx.probe("tick");
            }
        }
        // A violation of the property under check ends the run at once. After any other
        // failed clause (another property of this world, or a recorded known finding) the
        // step is still judged to its end - every property keeps its own verdict on it - and
        // the history ends afterwards (`stop`), because the model then no longer describes
        // the pool.
        if self.ctx.failed() {
            return;
        }
        self.replay_events(&events, &mut f);
        if self.ctx.failed() {
            return;
        }
        self.after_notifications(&notes, &f);
        if self.ctx.failed() {
            return;
        }
        self.sync_and_check(&mut f, branch);
        if self.ctx.failed() {
            return;
        }
        if let Some(fp) = fp_before {
            self.check_stale_preconf(fp);
        }
        self.ctx.sim_ms += 1;
    }

    // ---------------------------------------------------------------- extraction

    fn after_extract(&mut self, f: &mut StepFacts) {
        let mut req = self.q_extract.pop_front().expect("extract mirror");
        let got = req.rx.try_recv().expect("extraction answered in the step");
        let ids: Vec<TxId> = got.iter().map(|t| t.id()).collect();
        self.ctx.ev(format!(
            "  extracted [{}] (gas<={} txs<={} size<={} price>={} excl={})",
            self.names_in_order(&ids),
            req.max_gas,
            req.max_txs,
            req.max_size,
            req.min_price,
            req.excluded.len()
        ));
        if ids.is_empty() {
            self.ctx.probe("extract_empty");
        }
        let pool_before = self.pool.clone();
        // ---- C18: limits
        let recs: Vec<TxRec> = ids
            .iter()
            .map(|i| self.txs.get(i).cloned().expect("extracted tx is known"))
            .collect();
        let gas: u128 = recs.iter().map(|t| t.gas as u128).sum();
        let size: u128 = recs.iter().map(|t| t.size as u128).sum();
        self.chk("C18", "gas-limit", gas <= req.max_gas as u128, || {
            format!("extracted gas {gas} > requested {}", req.max_gas)
        });
        self.chk("C18", "size-limit", size <= req.max_size as u128, || {
            format!("extracted bytes {size} > requested {}", req.max_size)
        });
        self.chk("C18", "count-limit", recs.len() <= req.max_txs as usize, || {
                format!("extracted {} txs > requested {}", recs.len(), req.max_txs)
            });
        for t in &recs {
            let n = t.n;
            self.chk("C18", "min-gas-price", t.price >= req.min_price, || {
                format!("t{n} max gas price {} < minimum {}", t.price, req.min_price)
            });
            let bad = t.contracts_in.iter().find(|c| req.excluded.contains(*c));
            self.chk("C18", "excluded-contract", bad.is_none(), || {
                format!("t{n} uses excluded contract {}", txs::short(bad.unwrap().as_ref()))
            });
            self.chk("C18", "extracted-not-pooled", pool_before.contains(&t.id), || {
                format!("t{n} was handed out but was not in the pool")
            });
        }
        // ---- C18: mutually conflict free
        for i in 0..recs.len() {
            for j in (i + 1)..recs.len() {
                let c = recs[i].conflicts_with(&recs[j]);
                let (a, b) = (recs[i].n, recs[j].n);
                self.chk("C18", "extracted-conflict", c.is_none(), || {
                    format!("t{a} and t{b} handed out together conflict on {}", c.unwrap())
                });
            }
        }
        // ---- C17/C18: parents before children, generations
        let pos: BTreeMap<TxId, usize> = ids.iter().enumerate().map(|(i, t)| (*t, i)).collect();
        let mut generation: Vec<usize> = vec![0; recs.len()];
        for (i, t) in recs.iter().enumerate() {
            if self.tainted.contains(&t.id) {
                continue;
            }
            let mut needed: Vec<TxId> = Vec::new();
            for c in &t.coins {
                let p = *c.utxo.tx_id();
                // only coin outputs are spendable inside the pool; a change/variable output
                // can only have been accepted from a preconfirmation's resolved outputs,
                // i.e. the spender relies on the preconfirmed transaction, not on a pooled copy
                let coin_output = pool_before.contains(&p)
                    && matches!(
                        self.txs[&p].outputs.get(c.utxo.output_index() as usize),
                        Some(Output::Coin { .. })
                    );
                if coin_output {
                    needed.push(p);
                }
            }
            for c in &t.contracts_in {
                let on_chain = self.db.with(|s| s.contracts.contains(c));
                if on_chain || self.handed_contract(c, None) {
                    continue;
                }
                if let Some(p) = pool_before
                    .iter()
                    .find(|p| self.txs[*p].created.contains(c))
                {
                    needed.push(*p);
                }
            }
            for p in needed {
                let ok = pos.get(&p).map(|pp| *pp < i).unwrap_or(false);
                let (tn, pn) = (t.n, self.txs[&p].n);
                // A needed creator that is not a recorded parent: the transaction was admitted
                // on a contract announced by a handed-out transaction, the pooled creator
                // came later (coins cannot get there: a transaction whose outputs are
                // already spent in the pool is refused as a duplicate).
                let recorded = self
                    .parents
                    .get(&t.id)
                    .map(|ps| ps.contains(&p))
                    .unwrap_or(false);
                let class = if recorded {
                    "child-before-parent"
                } else {
                    "child-before-parent:contract-creator-admitted-later"
                };
                for prop in ["C17", "C18"] {
                    self.chk(prop, class, ok, || {
                        format!(
                            "t{tn} was handed out at position {i} but its in-pool parent t{pn} {}",
                            match pos.get(&p) {
                                Some(pp) => format!("comes later (position {pp})"),
                                None => "was not handed out".to_string(),
                            }
                        )
                    });
                }
            }
            // the wave in which it became executable: one after its last pooled parent
            // (the dependency relation recorded at admission, as the pool's graph keeps it)
            for p in self.parents.get(&t.id).cloned().unwrap_or_default() {
                if let Some(pp) = pos.get(&p) {
                    if *pp < i {
                        generation[i] = generation[i].max(generation[*pp] + 1);
                    }
                }
            }
        }
        if generation.iter().any(|g| *g > 0) {
            self.ctx.probe("extract_promoted_dependents");
        }
        // ---- C18: order among transactions executable at the same time
        for i in 0..recs.len() {
            for j in (i + 1)..recs.len() {
                let (a, b) = (&recs[i], &recs[j]);
                if a.gas == 0 || b.gas == 0 {
                    continue;
                }
                if generation[i] == generation[j] {
                    // the pool's documented sort key is (tip+1)/gas
                    let key_ok = !ratio_lt(
                        a.tip.saturating_add(1),
                        a.gas,
                        b.tip.saturating_add(1),
                        b.gas,
                    );
                    let (an, bn) = (a.n, b.n);
                    self.chk("C18", "order", key_ok, || {
                        format!(
                            "t{an} (tip {} gas {}) handed out before t{bn} (tip {} gas {}) although both were executable at the same time",
                            a.tip, a.gas, b.tip, b.gas
                        )
                    });
                    let plain_ok = !ratio_lt(a.tip, a.gas, b.tip, b.gas);
                    if key_ok {
                        self.chk("C18", "order:tip-plus-one-key", plain_ok, || {
                            format!(
                                "t{an} (tip {} gas {} => {}/{}) handed out before t{bn} (tip {} gas {} => {}/{}): the pool sorts by (tip+1)/gas, not by tip/gas",
                                a.tip, a.gas, a.tip, a.gas, b.tip, b.gas, b.tip, b.gas
                            )
                        });
                    }
                } else if generation[j] > generation[i]
                    && ratio_lt(a.tip, a.gas, b.tip, b.gas)
                {
                    self.ctx.probe("promoted_child_with_higher_ratio_after_lower(info)");
                }
            }
        }
        // ---- model transition
        for id in &ids {
            self.model_remove(id);
            self.hand_out(id, true, false);
            f.included.insert(*id);
        }
        f.extracted = ids;
        if !f.extracted.is_empty() {
            if (f.extracted.len() as u128) < pool_before.len() as u128 {
                if gas + 1 > req.max_gas as u128 / 2 {
                    self.ctx.probe("extract_partial");
                }
            }
        }
    }

    // ---------------------------------------------------------------- preconfirmation

    fn after_preconf_begin(&mut self, f: &mut StepFacts) {
        let req = self.q_preconf.pop_front().expect("preconf mirror");
        let name = self.name(&req.tx);
        self.ctx.ev(format!(
            "  preconf {name} {:?} h={} outputs={}",
            req.kind,
            req.height,
            req.outputs.as_ref().map(|o| o.len() as i64).unwrap_or(-1)
        ));
        let observed_tip = *self.worker.current_canonical_height();
        assert_eq!(observed_tip, self.tip, "model tip differs from the worker's");
        match req.kind {
            PreconfKind::Success | PreconfKind::Failure => {
                if req.height <= self.tip {
                    self.ctx.probe("stale_preconf");
                    // stale: must not change anything (checked by the caller's fingerprint)
                    self.stale_preconf = true;
                    return;
                }
                if self.pool.contains(&req.tx) {
                    // all pooled ancestors keep counting this transaction in their subtree
                    let mut todo: Vec<TxId> = self
                        .parents
                        .get(&req.tx)
                        .map(|p| p.iter().copied().collect())
                        .unwrap_or_default();
                    while let Some(a) = todo.pop() {
                        if self.pool.contains(&a) && self.lost_child_to_preconf.insert(a) {
                            self.ctx.probe("preconf_child_of_pooled_parent");
                            todo.extend(self.parents.get(&a).cloned().unwrap_or_default());
                        }
                    }
                    self.model_remove(&req.tx);
                    f.included.insert(req.tx);
                    f.preconfirmed.insert(req.tx);
                    self.hand_out(&req.tx, false, true);
                    self.ctx.probe("preconf_pooled_tx");
                } else if self.handed.get(&req.tx).map(|h| h.inputs_known) == Some(true) {
                    self.handed.get_mut(&req.tx).unwrap().preconfirmed = true;
                    self.ctx.probe("preconf_extracted_tx");
                } else {
                    // unknown to the pool: only the id and the advertised outputs are known
                    let h = self.handed.entry(req.tx).or_default();
                    h.preconfirmed = true;
                    self.lru_keys.insert(lru_key_tx(&req.tx));
                    self.ctx.probe("preconf_unknown_tx");
                }
                if let Some(outs) = &req.outputs {
                    let h = self.handed.entry(req.tx).or_default();
                    for (u, o) in outs {
                        match o {
                            Output::Coin {
                                to,
                                amount,
                                asset_id,
                            }
                            | Output::Change {
                                to,
                                amount,
                                asset_id,
                            }
                            | Output::Variable {
                                to,
                                amount,
                                asset_id,
                            } => {
                                h.coins.insert(
                                    u.output_index(),
                                    Some(CoinRec {
                                        owner: *to,
                                        amount: *amount,
                                        asset: *asset_id,
                                    }),
                                );
                            }
                            Output::ContractCreated { contract_id, .. } => {
                                if !h.contracts.contains(contract_id) {
                                    h.contracts.push(*contract_id);
                                }
                            }
                            Output::Contract(_) => {}
                        }
                    }
                }
                self.tentative.entry(req.height).or_default().insert(req.tx);
            }
            PreconfKind::SqueezedOut => {
                if self.pool.contains(&req.tx) {
                    self.ctx.probe("skip_pooled_tx");
                    self.direct_skip = Some(req.tx);
                } else if self.handed.contains_key(&req.tx) {
                    self.ctx.probe("skip_handed_out_tx");
                }
                // `unspend_inputs` clears the marks of a plain extraction; after a
                // preconfirmation they stay until the block import reconciles them
                if self.handed.get(&req.tx).map(|h| !h.preconfirmed).unwrap_or(false) {
                    self.release_claims(&req.tx);
                }
                self.late_extracted.remove(&req.tx);
                self.settle_gone(&req.tx);
                f.gone.insert(req.tx, "skipped");
            }
        }
    }

    fn check_stale_preconf(&mut self, before: String) {
        if !std::mem::take(&mut self.stale_preconf) {
            return;
        }
        let after = self.fingerprint();
        self.chk("C20", "stale-preconf-changed-pool", before == after, || {
            format!("a preconfirmation at or below the canonical tip changed the pool:\n before {before}\n after  {after}")
        });
    }

    // ---------------------------------------------------------------- blocks and expiry

    fn after_update_begin(&mut self, f: &mut StepFacts) {
        let batch: Vec<UpdateReq> = self.q_update.drain(..).collect();
        if batch.len() > 1 {
            self.ctx.probe("update_batch");
        }
        for (i, u) in batch.iter().enumerate() {
            match u {
                UpdateReq::Block { height, ids, stale } => {
                    assert_eq!(i, 0, "a block is always the first update of a batch");
                    self.ctx.ev(format!(
                        "  block h={height} [{}]{}",
                        self.names_in_order(ids),
                        if *stale { " (re-delivered)" } else { "" }
                    ));
                    self.tip = self.tip.max(*height);
                    let idset: BTreeSet<TxId> = ids.iter().copied().collect();
                    for id in ids {
                        if self.pool.contains(id) {
                            let mut todo: Vec<TxId> = self
                                .parents
                                .get(id)
                                .map(|p| p.iter().copied().collect())
                                .unwrap_or_default();
                            while let Some(a) = todo.pop() {
                                if self.pool.contains(&a)
                                    && !idset.contains(&a)
                                    && self.lost_child_to_block.insert(a)
                                {
                                    self.ctx.probe("commit_child_of_pooled_parent");
                                    todo.extend(self.parents.get(&a).cloned().unwrap_or_default());
                                }
                            }
                            let orphaned_in_part = self.children_of(id).iter().any(|c| {
                                !idset.contains(c)
                                    && self.parents[c]
                                        .iter()
                                        .any(|p| p != id && self.pool.contains(p) && !idset.contains(p))
                            });
                            if orphaned_in_part {
                                self.ctx.probe("commit_one_of_several_pooled_parents");
                            }
                            self.model_remove(id);
                            f.included.insert(*id);
                            f.committed.insert(*id);
                            self.committed_from_pool.insert(*id);
                            self.ctx.probe("commit_pooled_tx");
                            self.note_spent_keys(id);
                        } else if self.handed.get(id).map(|h| h.inputs_known) == Some(true) {
                            self.ctx.probe("commit_handed_out_tx");
                            self.note_spent_keys(id);
                        } else {
                            self.lru_keys.insert(lru_key_tx(id));
                        }
                        self.settle(id);
                        self.release_claims(id);
                        self.late_extracted.remove(id);
                    }
                    let heights: Vec<u32> =
                        self.tentative.range(..=*height).map(|(h, _)| *h).collect();
                    for h in heights {
                        for k in self.tentative.remove(&h).unwrap_or_default() {
                            if idset.contains(&k) {
                                self.ctx.probe("preconf_confirmed_by_block");
                                continue;
                            }
                            self.ctx.probe("rollback");
                            let late = self.late_extracted.contains(&k);
                            self.settle_gone(&k);
                            if !late {
                                self.release_claims(&k);
                            }
                            f.gone.insert(k, "rollback");
                            f.rolled_back.push((k, late));
                        }
                    }
                }
                UpdateReq::Expired(ids) => {
                    self.ctx
                        .ev(format!("  expired [{}]", self.names_in_order(ids)));
                }
            }
        }
    }

    // ---------------------------------------------------------------- reads

    fn after_read(&mut self) {
        let reads: Vec<ReadReq> = self.q_read.drain(..).collect();
        let pool = self.pool.clone();
        for r in reads {
            match r {
                ReadReq::TxIds(max, mut rx) => {
                    let got = rx.try_recv().expect("read answered");
                    let set: BTreeSet<TxId> = got.iter().copied().collect();
                    let ok = set.len() == got.len()
                        && set.is_subset(&pool)
                        && got.len() == max.min(pool.len());
                    self.ctx.ev(format!("  read tx_ids(max {max}) -> {}", got.len()));
                    self.chk("C16", "read-tx-ids", ok, || {
                        format!(
                            "tx id query (max {max}) returned {} ids, pool holds {}",
                            got.len(),
                            pool.len()
                        )
                    });
                }
                ReadReq::NonExisting(asked, mut rx) => {
                    let got = rx.try_recv().expect("read answered");
                    let want: Vec<TxId> =
                        asked.iter().filter(|i| !pool.contains(*i)).copied().collect();
                    self.ctx
                        .ev(format!("  read non_existing({}) -> {}", asked.len(), got.len()));
                    self.chk("C16", "read-non-existing", got == want, || {
                        "non-existing query disagrees with the pool content".to_string()
                    });
                }
                ReadReq::Txs(asked, mut ans) => {
                    let got = ans.try_take().expect("read answered");
                    let ok = got.len() == asked.len()
                        && asked.iter().zip(got.iter()).all(|(id, g)| match g {
                            Some(t) => pool.contains(id) && t.id() == *id,
                            None => !pool.contains(id),
                        });
                    self.ctx.ev(format!("  read txs({})", asked.len()));
                    self.chk("C16", "read-txs", ok, || {
                        "tx lookup disagrees with the pool content".to_string()
                    });
                }
            }
        }
    }

    // ---------------------------------------------------------------- event replay

    fn replay_events(&mut self, events: &[TsmEvent], f: &mut StepFacts) {
        let mut expect_evicted: Option<(TxId, BTreeSet<TxId>)> = None;
        for e in events {
            match e {
                TsmEvent::Submitted(id) => {
                    self.check_evicted(expect_evicted.take());
                    expect_evicted = self.on_admission(id, f);
                }
                TsmEvent::Squeezed(list) => {
                    let ids: Vec<TxId> = list.iter().map(|x| x.0).collect();
                    self.ctx
                        .ev(format!("  squeezed-out report [{}]", self.names(&ids)));
                    for (id, reason) in list {
                        if self.pool.contains(id) {
                            let kids: BTreeSet<TxId> = self.children_of(id).into_iter().collect();
                            f.gone_children.insert(*id, kids);
                            self.model_remove(id);
                            f.squeezed.insert(*id);
                            f.gone.entry(*id).or_insert("squeezed");
                            if reason.contains("less worth") {
                                self.ctx.probe("squeezed_less_worth");
                            } else if reason.contains("time to live") {
                                self.ctx.probe("squeezed_ttl");
                            } else if reason.contains("was not included in the canonical block") {
                                self.ctx.probe("squeezed_rollback_dependent");
                            } else if reason.contains("skipped") {
                                self.ctx.probe("squeezed_skipped");
                            }
                        } else {
                            let n = self.name(id);
                            let class = if f.included.contains(id)
                                || self.handed.contains_key(id)
                                || self.db.with(|c| c.txs.contains(id))
                            {
                                "reported-included-tx"
                            } else if f.squeezed.contains(id) {
                                "reported-twice"
                            } else {
                                "reported-not-pooled"
                            };
                            self.chk("C21", class, false, || {
                                format!("{n} was reported as squeezed out ({reason}) but it {}",
                                    match class {
                                        "reported-included-tx" => "was handed out for a block / committed",
                                        "reported-twice" => "had already been reported for this exit",
                                        _ => "was not in the pool",
                                    })
                            });
                        }
                    }
                }
                TsmEvent::OtherStatus(id, s) => {
                    let n = self.name(id);
                    self.ctx.ev(format!("  status {n} {s}"));
                    self.ctx.probe("other_status_from_pool");
                }
            }
            if self.ctx.failed() {
                return;
            }
        }
        self.check_evicted(expect_evicted.take());
    }

    fn check_evicted(&mut self, e: Option<(TxId, BTreeSet<TxId>)>) {
        let Some((newcomer, set)) = e else { return };
        let left: Vec<TxId> = set.iter().filter(|i| self.pool.contains(*i)).copied().collect();
        let n = self.name(&newcomer);
        let names = self.names(&left);
        self.chk("C19", "collision-subtree-not-evicted", left.is_empty(), || {
                format!("{n} was admitted over colliding transactions but [{names}] of their subtrees stayed")
            });
    }

    /// The pool announced that it admitted `id`. Evaluates the admission rules on the model
    /// state at this very moment and returns the set that must be evicted with it.
    fn on_admission(&mut self, id: &TxId, f: &mut StepFacts) -> Option<(TxId, BTreeSet<TxId>)> {
        let t = self
            .txs
            .get(id)
            .cloned()
            .unwrap_or_else(|| panic!("pool admitted a transaction the harness never built"));
        let n = t.n;
        self.ctx.ev(format!("  admitted t{n}"));
        self.ctx.probe("admitted");
        // ---- duplicate ids
        self.chk("C19", "admitted-duplicate-pooled", !self.pool.contains(id), || {
                format!("t{n} admitted twice")
            });
        let committed = self.db.with(|c| c.txs.contains(id));
        self.chk("C19", "admitted-committed-id", !committed, || {
            format!("t{n} is already committed on chain but was admitted")
        });
        // ---- inputs
        for c in &t.coins {
            let u = c.utxo;
            let un = self.utxo_name(&u);
            let creator = *u.tx_id();
            let mut known: Option<CoinRec> = None;
            let mut exists = false;
            let mut lenient = false;
            if self.pool.contains(&creator) {
                match self.txs[&creator].outputs.get(u.output_index() as usize) {
                    Some(Output::Coin {
                        to,
                        amount,
                        asset_id,
                    }) => {
                        exists = true;
                        known = Some(CoinRec {
                            owner: *to,
                            amount: *amount,
                            asset: *asset_id,
                        });
                    }
                    Some(Output::Change { .. }) | Some(Output::Variable { .. }) => {
                        // not spendable before execution; the property does not speak about it
                        exists = true;
                        lenient = true;
                    }
                    _ => {}
                }
            }
            if !exists {
                if let Some(r) = self.db.with(|s| s.coins.get(&u).cloned()) {
                    exists = true;
                    known = Some(r);
                }
            }
            if !exists {
                if let Some(h) = self.handed_coin(&u) {
                    exists = true;
                    known = h.clone();
                    lenient = known.is_none();
                }
            }
            if !exists {
                let spent_by = self.db.with(|s| s.spent_coins.get(&u).copied());
                let class = if spent_by.is_some() {
                    "admitted-committed-spend"
                } else {
                    "admitted-nonexistent-coin"
                };
                self.chk("C19", class, false, || {
                    format!(
                        "t{n} admitted although its coin input {un} {}",
                        match spent_by {
                            Some(_) => "was spent by a committed transaction",
                            None => "does not exist (not on chain, not a live output of a pooled or handed-out transaction)",
                        }
                    )
                });
                if let Some(z) = spent_by {
                    if self.committed_from_pool.contains(&z) {
                        let zn = self.name(&z);
                        self.chk("C20", "committed-input-respent", false, || {
                            format!("t{n} admitted although {un} was spent by {zn}, which the imported block took from the pool")
                        });
                    }
                }
            } else if let (Some(r), false) = (&known, lenient) {
                let same = r.owner == c.owner && r.amount == c.amount && r.asset == c.asset;
                self.chk("C19", "admitted-mismatch", same, || {
                    format!(
                        "t{n} admitted although its input {un} claims (owner {}, amount {}, asset {}) and the output is (owner {}, amount {}, asset {})",
                        txs::short(c.owner.as_ref()), c.amount, txs::short(c.asset.as_ref()),
                        txs::short(r.owner.as_ref()), r.amount, txs::short(r.asset.as_ref())
                    )
                });
            }
            self.check_unsettled(&t, RKey::Coin(u));
        }
        for m in &t.msgs {
            let mn = nonce_str(&m.nonce);
            let rec = self.db.with(|s| s.messages.get(&m.nonce).cloned());
            match rec {
                None => {
                    let spent = self.db.with(|s| s.spent_messages.contains_key(&m.nonce));
                    let class = if spent {
                        "admitted-committed-spend"
                    } else {
                        "admitted-nonexistent-message"
                    };
                    self.chk("C19", class, false, || {
                        format!("t{n} admitted although message {mn} {}", if spent { "was already spent on chain" } else { "does not exist" })
                    });
                }
                Some(r) => {
                    let same = r.sender == m.sender
                        && r.recipient == m.recipient
                        && r.amount == m.amount
                        && r.data == m.data;
                    self.chk("C19", "admitted-mismatch", same, || {
                        format!("t{n} admitted although its message input {mn} disagrees with the message on chain")
                    });
                }
            }
            self.check_unsettled(&t, RKey::Msg(m.nonce));
        }
        // ---- collisions
        let colliding: Vec<TxId> = self
            .pool
            .iter()
            .filter(|y| **y != *id && t.conflicts_with(&self.txs[*y]).is_some())
            .copied()
            .collect();
        let mut must_go = BTreeSet::new();
        for y in &colliding {
            let sub = self.subtree(y);
            let (mut tip, mut gas) = (0u128, 0u128);
            for s in &sub {
                tip += self.txs[s].tip as u128;
                gas += self.txs[s].gas as u128;
            }
            // t.tip / t.gas > tip / gas
            let better = (t.tip as u128) * gas > tip * (t.gas as u128);
            let yn = self.txs[y].n;
            let why = t.conflicts_with(&self.txs[y]).unwrap_or_default();
            let subn = self.names(&sub);
            let class = if sub.iter().any(|x| self.lost_child_to_preconf.contains(x)) {
                "admitted-not-better-than-collision:after-child-preconfirmed"
            } else if sub.iter().any(|x| self.lost_child_to_block.contains(x)) {
                "admitted-not-better-than-collision:after-child-committed"
            } else {
                "admitted-not-better-than-collision"
            };
            self.chk("C19", class, better, || {
                format!(
                    "t{n} (tip {} / gas {}) admitted over t{yn} ({why}) whose subtree [{subn}] has tip {tip} / gas {gas}: not strictly higher",
                    t.tip, t.gas
                )
            });
            must_go.extend(sub);
        }
        if !colliding.is_empty() {
            self.ctx.probe("collision_replacement");
        }
        // ---- model transition
        let mut ps = BTreeSet::new();
        for c in &t.coins {
            let creator = c.utxo.tx_id();
            // only coin outputs of pooled transactions are spendable inside the pool
            let is_coin_output = self.pool.contains(creator)
                && matches!(
                    self.txs[creator].outputs.get(c.utxo.output_index() as usize),
                    Some(Output::Coin { .. })
                );
            if is_coin_output && !must_go.contains(creator) {
                ps.insert(*creator);
            }
        }
        for c in &t.contracts_in {
            if let Some(p) = self
                .pool
                .iter()
                .find(|p| !must_go.contains(*p) && self.txs[*p].created.contains(c))
            {
                ps.insert(*p);
            }
        }
        if !ps.is_empty() {
            self.ctx.probe("admitted_dependent");
        }
        if ps.len() > 1 {
            self.ctx.probe("admitted_with_several_pooled_parents");
        }
        self.pool.insert(*id);
        self.parents.insert(*id, ps);
        let _ = f;
        if must_go.is_empty() {
            None
        } else {
            Some((*id, must_go))
        }
    }

    fn check_unsettled(&mut self, t: &TxRec, key: RKey) {
        let Some(spender) = self.unsettled.get(&key).copied() else { return };
        let cached = match &key {
            RKey::Coin(u) => self.worker.is_spent_utxo(u),
            RKey::Msg(m) => self.worker.is_spent_message(m),
        };
        let overflow = self.lru_keys.len() > self.lru_capacity();
        let creator_pooled = match &key {
            RKey::Coin(u) => self.pool.contains(u.tx_id()),
            RKey::Msg(_) => false,
        };
        let class = if creator_pooled {
            // the pool consults its spent-input cache only for coins that are not outputs of
            // pooled transactions
            "admitted-unsettled-spend:creator-still-pooled"
        } else if cached {
            "admitted-unsettled-spend"
        } else if overflow {
            "admitted-unsettled-spend:lru-evicted"
        } else {
            "admitted-unsettled-spend:forgotten-without-overflow"
        };
        let (n, kn, sn) = (t.n, self.key_name(&key), self.name(&spender));
        let (keys, cap) = (self.lru_keys.len(), self.lru_capacity());
        self.chk("C19", class, false, || {
            format!(
                "t{n} admitted although {kn} was handed out for a block with {sn} and is not settled (spent-input cache remembers it: {cached}; {keys} keys were marked spent so far, cache capacity {cap})"
            )
        });
    }

    // ---------------------------------------------------------------- notifications

    fn after_notifications(&mut self, notes: &[Notification], f: &StepFacts) {
        for note in notes {
            match note {
                Notification::Inserted {
                    tx_id,
                    time,
                    expiration,
                    ..
                } => {
                    let ms = time
                        .duration_since(std::time::UNIX_EPOCH)
                        .map(|d| d.as_millis() as i64)
                        .unwrap_or(0);
                    self.pruner_times.push_front((ms, *tx_id));
                    if **expiration < u32::MAX {
                        self.height_exp.entry(**expiration).or_default().push(*tx_id);
                    }
                    if let Some(p) = self.expect_resubmit.iter().position(|x| x == tx_id) {
                        self.expect_resubmit.remove(p);
                        self.ctx.probe("resubmit_after_rollback_accepted");
                    }
                }
                Notification::ErrorInsertion { tx_id, error, .. } => {
                    let n = self.name(tx_id);
                    let kind = error_kind(error);
                    self.ctx.ev(format!("  rejected {n}: {kind}"));
                    self.ctx.probe(&format!("reject:{kind}"));
                    if let Some(p) = self.expect_resubmit.iter().position(|x| x == tx_id) {
                        self.expect_resubmit.remove(p);
                        let blocked_by_history = matches!(
                            error,
                            PoolError::InputValidation(InputValidationError::DuplicateTxId(_))
                                | PoolError::UtxoInputWasAlreadySpent(_)
                                | PoolError::MessageInputWasAlreadySpent(_)
                        );
                        if blocked_by_history && !f.db_fault && self.resubmittable(tx_id) {
                            self.chk("C20", "resubmit-after-rollback-rejected", false, || {
                                format!("{n} was preconfirmed, absent from the canonical block, its inputs are still unspent on chain, yet resubmission failed with: {error}")
                            });
                        } else {
                            self.ctx.probe("resubmit_after_rollback_not_applicable");
                        }
                    }
                }
            }
        }
    }

    /// Nothing but stale spent marks can make the pool refuse this transaction as
    /// duplicate / already spent.
    pub fn resubmittable(&self, id: &TxId) -> bool {
        let Some(t) = self.txs.get(id) else { return false };
        if self.handed.contains_key(id) || self.db.with(|c| c.txs.contains(id)) {
            return false;
        }
        let on_chain = self.db.with(|c| {
            t.coins.iter().all(|x| c.coins.contains_key(&x.utxo))
                && t.msgs.iter().all(|m| c.messages.contains_key(&m.nonce))
        });
        let unclaimed = |k: RKey| {
            !self.unsettled.contains_key(&k)
                && self.claims.get(&k).map(|s| s.is_empty()).unwrap_or(true)
        };
        let free = t.coins.iter().all(|x| unclaimed(RKey::Coin(x.utxo)))
            && t.msgs.iter().all(|m| unclaimed(RKey::Msg(m.nonce)));
        // its own outputs are not referenced by pooled transactions (would be reported as a
        // duplicate id by the collision manager)
        let outputs_unused = !self
            .pool
            .iter()
            .any(|p| self.txs[p].coins.iter().any(|c| c.utxo.tx_id() == id));
        on_chain && free && outputs_unused
    }

    // ---------------------------------------------------------------- invariants after a step

    fn sync_and_check(&mut self, f: &mut StepFacts, branch: usize) {
        let real = self.real_pool_ids();
        // ---- C21 / conservation
        let missing: Vec<TxId> = self.pool.difference(&real).copied().collect();
        for id in missing {
            let n = self.name(&id);
            let direct = self.direct_skip == Some(id);
            if !direct {
                self.chk("C21", "exit-unreported", false, || {
                    format!("{n} left the pool without being handed out or committed and no squeeze-out was reported")
                });
            }
            self.model_remove(&id);
            f.gone.entry(id).or_insert("vanished");
        }
        self.direct_skip = None;
        let extra: Vec<TxId> = real.difference(&self.pool).copied().collect();
        for id in extra {
            let n = self.name(&id);
            if f.squeezed.contains(&id) {
                self.chk("C21", "reported-but-still-pooled", false, || {
                    format!("{n} was reported as squeezed out but is still in the pool")
                });
            } else if f.extracted.contains(&id) {
                self.chk("C18", "extracted-still-pooled", false, || {
                    format!("{n} was handed out for a block but is still in the pool")
                });
            } else if f.committed.contains(&id) {
                self.chk("C20", "included-still-pooled", false, || {
                    format!("{n} is included in the imported block but is still in the pool")
                });
            } else if f.preconfirmed.contains(&id) {
                self.chk("C20", "preconfirmed-still-pooled", false, || {
                    format!("{n} was preconfirmed for a future height but is still in the pool")
                });
            } else if !self.stop {
                panic!("{n} is in the pool but its admission was never announced");
            }
            self.pool.insert(id);
            self.parents.entry(id).or_default();
        }
        if self.ctx.failed() {
            return;
        }
        // positive evidence for the exactly-once clause
        let reported = f.squeezed.len();
        self.chk("C21", "exit-accounting", true, String::new);
        if reported > 1 {
            self.ctx.probe("cascade_reported");
        }

        // ---- gather the held transactions
        let held: Vec<TxRec> = real.iter().map(|i| self.txs[i].clone()).collect();
        // ---- C16 conflicts
        for i in 0..held.len() {
            for j in (i + 1)..held.len() {
                let c = held[i].conflicts_with(&held[j]);
                let (a, b) = (held[i].n, held[j].n);
                self.chk("C16", "pool-conflict", c.is_none(), || {
                    format!("the pool holds t{a} and t{b} which conflict on {}", c.unwrap())
                });
            }
        }
        // ---- C16 stats
        let stats = self.worker.latest_stats();
        let gas: u128 = held.iter().map(|t| t.gas as u128).sum();
        let size: u128 = held.iter().map(|t| t.size as u128).sum();
        self.chk("C16", "stats-count", stats.tx_count == held.len() as u64, || {
            format!("reported tx_count {} but the pool holds {}", stats.tx_count, held.len())
        });
        self.chk("C16", "stats-gas", stats.total_gas as u128 == gas, || {
            format!("reported total_gas {} but held transactions sum to {gas}", stats.total_gas)
        });
        self.chk("C16", "stats-size", stats.total_size as u128 == size, || {
            format!("reported total_size {} but held transactions sum to {size}", stats.total_size)
        });
        let (cg, cb, cn) = self.worker.pool_counters();
        self.chk(
            "C16",
            "counters",
            cg as u128 == gas && cb as u128 == size && cn == held.len(),
            || format!("internal counters gas {cg} bytes {cb} count {cn}, held sums gas {gas} bytes {size} count {}", held.len()),
        );
        if held.len() >= self.k.max_txs {
            self.ctx.probe("pool_full_by_count");
        }

        // ---- C17 structure
        self.check_structure(&real);
        // ---- C17/C20 cascade
        self.check_cascade(f, &real);
        // ---- C20 rollback: outputs withdrawn, resubmission scheduled
        let rolled = std::mem::take(&mut f.rolled_back);
        for (k, _) in rolled.clone() {
            let late_extraction = rolled.iter().any(|(x, l)| *x == k && *l);
            self.check_withdrawn(&k);
            if late_extraction {
                self.ctx.probe("rollback_of_tx_extracted_later");
                continue;
            }
            if self.txs.contains_key(&k) && !real.contains(&k) && self.resubmittable(&k) {
                if !self.expect_resubmit.contains(&k) {
                    self.expect_resubmit.push(k);
                }
            }
        }
        if branch == 2 {
            for id in f.committed.iter() {
                let n = self.name(id);
                self.chk("C20", "included-still-pooled", !real.contains(id), || {
                    format!("{n} is included in the imported block but is still in the pool")
                });
            }
        }
        // ---- probe: spent-input cache forgot an unsettled spend (F5 precondition)
        let mut forgot = 0;
        for (key, _) in self.unsettled.iter() {
            let cached = match key {
                RKey::Coin(u) => self.worker.is_spent_utxo(u),
                RKey::Msg(m) => self.worker.is_spent_message(m),
            };
            if !cached {
                forgot += 1;
            }
        }
        if forgot > 0 {
            self.ctx.probe("spent_cache_forgot_unsettled_input");
        }
        if self.lru_keys.len() > self.lru_capacity() {
            self.ctx.probe("spent_cache_overflowed");
        }
    }

    fn check_structure(&mut self, real: &BTreeSet<TxId>) {
        // observed edges
        let mut observed: BTreeMap<TxId, BTreeSet<TxId>> = BTreeMap::new();
        for id in real {
            let st = self.worker.pool_tx(id).expect("held tx is readable");
            for d in st.direct_dependents {
                observed.entry(d).or_default().insert(*id);
            }
        }
        for id in real {
            if self.tainted.contains(id) {
                continue;
            }
            let model: BTreeSet<TxId> = self
                .parents
                .get(id)
                .map(|p| p.iter().filter(|x| real.contains(*x)).copied().collect())
                .unwrap_or_default();
            let obs = observed.get(id).cloned().unwrap_or_default();
            let n = self.name(id);
            let (m, o) = (self.names(&model), self.names(&obs));
            self.chk("C17", "graph-edges", model == obs, || {
                format!("{n} spends outputs of pooled [{m}] but the pool's graph records parents [{o}]")
            });
            let has_dep = self.worker.pool_tx(id).map(|s| s.has_dependencies).unwrap_or(false);
            self.chk("C17", "graph-edges", has_dep == !obs.is_empty(), || {
                format!("{n}: has_dependencies={has_dep} but {} parents are recorded", obs.len())
            });
        }
        // chain length and diamonds on the recomputed relation
        let parents: BTreeMap<TxId, Vec<TxId>> = real
            .iter()
            .map(|id| {
                (
                    *id,
                    self.parents
                        .get(id)
                        .map(|p| p.iter().filter(|x| real.contains(*x)).copied().collect())
                        .unwrap_or_default(),
                )
            })
            .collect();
        fn depth(id: &TxId, parents: &BTreeMap<TxId, Vec<TxId>>, memo: &mut BTreeMap<TxId, usize>, guard: usize) -> usize {
            if let Some(d) = memo.get(id) {
                return *d;
            }
            if guard > 64 {
                return usize::MAX / 2; // cycle
            }
            let d = 1 + parents[id]
                .iter()
                .map(|p| depth(p, parents, memo, guard + 1))
                .max()
                .unwrap_or(0);
            memo.insert(*id, d);
            d
        }
        let mut memo = BTreeMap::new();
        let mut longest = 0;
        for id in real {
            let d = depth(id, &parents, &mut memo, 0);
            longest = longest.max(d);
            let n = self.name(id);
            let limit = self.k.chain_count;
            self.chk("C17", "chain-too-long", d <= limit, || {
                format!("{n} ends a dependency chain of {d} pooled transactions, limit {limit}")
            });
            // number of distinct paths to every ancestor
            let mut paths: BTreeMap<TxId, usize> = BTreeMap::new();
            let mut todo: Vec<TxId> = parents[id].clone();
            let mut budget = 10_000;
            while let Some(a) = todo.pop() {
                *paths.entry(a).or_default() += 1;
                todo.extend(parents[&a].iter().copied());
                budget -= 1;
                if budget == 0 {
                    break;
                }
            }
            let dia = paths.iter().find(|(_, c)| **c > 1).map(|(a, _)| *a);
            let dn = dia.map(|d| self.name(&d)).unwrap_or_default();
            self.chk("C17", "diamond", dia.is_none(), || {
                format!("{n} depends on {dn} through more than one path")
            });
        }
        if longest >= self.k.chain_count {
            self.ctx.probe("chain_limit_reached");
        }
        if longest >= 2 {
            self.ctx.probe("dependency_in_pool");
        }
    }

    /// After a non-inclusion exit of P nothing that needs an output of P may stay.
    fn check_cascade(&mut self, f: &StepFacts, real: &BTreeSet<TxId>) {
        for (p, reason) in f.gone.iter() {
            if real.contains(p) {
                continue; // re-admitted in the same step
            }
            let created: Vec<ContractId> =
                self.txs.get(p).map(|t| t.created.clone()).unwrap_or_default();
            // contracts announced by a preconfirmation of an unknown tx are tracked in `gone_contracts`
            let extra = self.gone_contracts.get(p).cloned().unwrap_or_default();
            for id in real {
                if self.tainted.contains(id) {
                    continue;
                }
                let t = self.txs[id].clone();
                let mut broken: Option<(String, &'static str)> = None;
                for c in &t.coins {
                    if c.utxo.tx_id() == p
                        && !self.db.with(|s| s.coins.contains_key(&c.utxo))
                        && self.handed_coin(&c.utxo).is_none()
                    {
                        broken = Some((self.utxo_name(&c.utxo), "coin"));
                    }
                }
                for c in &t.contracts_in {
                    if (created.contains(c) || extra.contains(c))
                        && !self.db.with(|s| s.contracts.contains(c))
                        && !real.iter().any(|q| self.txs[q].created.contains(c))
                        && !self.handed_contract(c, None)
                    {
                        broken = Some((format!("contract {}", txs::short(c.as_ref())), "contract"));
                    }
                }
                if let Some((what, dep)) = broken {
                    let (tn, pn) = (t.n, self.name(p));
                    // a contract user without a recorded edge to the pooled creator: it was
                    // admitted on a handed-out creator, the pooled one arrived later
                    let unlinked = dep == "contract"
                        && f.gone_children
                            .get(p)
                            .map(|k| !k.contains(id))
                            .unwrap_or(false);
                    let class = if unlinked {
                        "cascade:contract-creator-admitted-later".to_string()
                    } else {
                        format!("cascade:{reason}:{dep}")
                    };
                    let ok17 = self.chk("C17", &class, false, || {
                        format!("{pn} left ({reason}) but t{tn}, which needs its {what}, is still in the pool")
                    });
                    let mut ok20 = true;
                    if *reason == "rollback" {
                        ok20 = self.chk("C20", &format!("rollback-dependents-not-evicted:{dep}"), false, || {
                            format!("{pn} was preconfirmed but is absent from the canonical block; t{tn}, which needs its {what}, was not evicted")
                        });
                    }
                    if ok17 || ok20 {
                        // a recorded known finding: do not report its consequences again
                        self.tainted.insert(*id);
                    }
                }
            }
        }
        self.gone_contracts.clear();
    }

    fn check_withdrawn(&mut self, k: &TxId) {
        let kn = self.name(k);
        let mut outs: Vec<(UtxoId, CoinRec)> = Vec::new();
        if let Some(t) = self.txs.get(k) {
            for (i, o) in t.outputs.iter().enumerate() {
                if let Output::Coin { to, amount, asset_id } = o {
                    outs.push((UtxoId::new(*k, i as u16), CoinRec { owner: *to, amount: *amount, asset: *asset_id }));
                }
            }
        }
        if let Some(r) = self.advertised.get(k) {
            for (i, rec) in r {
                outs.push((UtxoId::new(*k, *i), rec.clone()));
            }
        }
        if self.handed.contains_key(k) {
            return; // handed out again in the same step (cannot happen today)
        }
        for (u, r) in outs {
            let live = self.worker.extracted_coin_exists(&u, &r.owner, &r.amount, &r.asset);
            let un = self.utxo_name(&u);
            self.chk("C20", "rollback-outputs-not-withdrawn", !live, || {
                format!("{kn} was preconfirmed but is absent from the canonical block; its output {un} is still offered to new transactions")
            });
        }
        let created: Vec<ContractId> = self.txs.get(k).map(|t| t.created.clone()).unwrap_or_default();
        for c in created {
            if self.handed_contract(&c, Some(k)) {
                continue;
            }
            let live = self.worker.extracted_contract_exists(&c);
            self.chk("C20", "rollback-outputs-not-withdrawn", !live, || {
                format!("{kn} was preconfirmed but is absent from the canonical block; the contract it creates is still offered to new transactions")
            });
        }
        self.advertised.remove(k);
    }

    /// Everything observable about the pool that a no-op must leave untouched.
    pub fn fingerprint(&self) -> String {
        let mut s = String::new();
        let ids = self.real_pool_ids();
        s.push_str(&format!("pool[{}]", self.names(&ids)));
        let st = self.worker.latest_stats();
        s.push_str(&format!(" stats({},{},{})", st.tx_count, st.total_gas, st.total_size));
        s.push_str(&format!(" exec{}", self.worker.executable_count()));
        s.push_str(&format!(" pending{:?}", self.worker.pending_pool_counters()));
        let mut spent = Vec::new();
        let mut live = Vec::new();
        for (id, t) in &self.txs {
            if self.worker.is_spent_tx(id) {
                spent.push(format!("t{}", t.n));
            }
            for c in &t.coins {
                if self.worker.is_spent_utxo(&c.utxo) {
                    spent.push(self.utxo_name(&c.utxo));
                }
                if self.worker.extracted_coin_exists(&c.utxo, &c.owner, &c.amount, &c.asset) {
                    live.push(self.utxo_name(&c.utxo));
                }
            }
            for m in &t.msgs {
                if self.worker.is_spent_message(&m.nonce) {
                    spent.push(nonce_str(&m.nonce));
                }
            }
            for (i, o) in t.outputs.iter().enumerate() {
                if let Output::Coin { to, amount, asset_id } = o {
                    let u = UtxoId::new(*id, i as u16);
                    if self.worker.extracted_coin_exists(&u, to, amount, asset_id) {
                        live.push(self.utxo_name(&u));
                    }
                }
            }
            for c in &t.created {
                if self.worker.extracted_contract_exists(c) {
                    live.push(format!("c{}", txs::short(c.as_ref())));
                }
            }
        }
        for id in self.handed.keys() {
            if !self.txs.contains_key(id) && self.worker.is_spent_tx(id) {
                spent.push(self.name(id));
            }
        }
        spent.sort();
        spent.dedup();
        live.sort();
        live.dedup();
        s.push_str(&format!(" spent[{}] live[{}]", spent.join(","), live.join(",")));
        let tent: Vec<String> = self
            .worker
            .tentative_preconfs()
            .iter()
            .map(|(h, ids)| format!("{}:{}", **h, self.names(ids)))
            .collect();
        s.push_str(&format!(" tentative[{}]", tent.join(";")));
        s
    }

    // ---------------------------------------------------------------- helpers for the parties

    pub fn make_block_result(
        &self,
        height: u32,
        ids: &[TxId],
        failed: &BTreeSet<TxId>,
    ) -> fuel_core_types::services::block_importer::SharedImportResult {
        let mut block = Block::default();
        block.header_mut().set_block_height(BlockHeight::new(height));
        for id in ids {
            block.transactions_mut().push(self.txs[id].raw());
        }
        let sealed = Sealed {
            entity: block,
            consensus: Default::default(),
        };
        let statuses = ids
            .iter()
            .map(|id| TransactionExecutionStatus {
                id: *id,
                result: if failed.contains(id) {
                    TransactionExecutionResult::Failed {
                        result: None,
                        receipts: Arc::new(vec![]),
                        total_gas: 0,
                        total_fee: 0,
                    }
                } else {
                    TransactionExecutionResult::Success {
                        result: None,
                        receipts: Arc::new(vec![]),
                        total_gas: 0,
                        total_fee: 0,
                    }
                },
            })
            .collect();
        Arc::new(ImportResult::new_from_local(sealed, statuses, vec![]).wrap())
    }

    pub fn make_preconf(&self, req: &PreconfReq) -> PreConfirmationStatus {
        let ptr = TxPointer::new(BlockHeight::new(req.height), 0);
        match req.kind {
            PreconfKind::Success => PreConfirmationStatus::Success(
                statuses::PreConfirmationSuccess {
                    tx_pointer: ptr,
                    total_gas: 0,
                    total_fee: 0,
                    receipts: None,
                    resolved_outputs: req.outputs.clone(),
                }
                .into(),
            ),
            PreconfKind::Failure => PreConfirmationStatus::Failure(
                statuses::PreConfirmationFailure {
                    tx_pointer: ptr,
                    total_gas: 0,
                    total_fee: 0,
                    receipts: None,
                    resolved_outputs: req.outputs.clone(),
                    reason: "simulated failure".into(),
                }
                .into(),
            ),
            PreconfKind::SqueezedOut => PreConfirmationStatus::SqueezedOut(
                statuses::PreConfirmationSqueezedOut {
                    reason: "skipped by the producer".into(),
                }
                .into(),
            ),
        }
    }

    pub fn constraints_of(req: &ExtractReq) -> Constraints {
        Constraints {
            minimal_gas_price: req.min_price,
            max_gas: req.max_gas,
            maximum_txs: req.max_txs,
            maximum_block_size: req.max_size,
            excluded_contracts: req.excluded.iter().copied().collect(),
        }
    }
}

pub fn error_kind(e: &PoolError) -> &'static str {
    match e {
        PoolError::Database(_) => "database",
        PoolError::Storage(_) => "storage",
        PoolError::Blacklisted(_) => "blacklisted",
        PoolError::Collided(_) => "collided",
        PoolError::InputValidation(v) => match v {
            InputValidationError::DuplicateTxId(_) => "duplicate-tx-id",
            InputValidationError::UtxoNotFound(_) => "utxo-not-found",
            InputValidationError::NotInsertedInputContractDoesNotExist(_) => "contract-not-found",
            InputValidationError::NotInsertedInputMessageUnknown(_) => "message-unknown",
            InputValidationError::NotInsertedBlobIdAlreadyTaken(_) => "blob-taken",
            InputValidationError::NotInsertedInputDependentOnChangeOrVariable => "depends-on-change-or-variable",
            InputValidationError::MaxGasZero => "max-gas-zero",
            _ => "input-mismatch",
        },
        PoolError::Dependency(_) => "dependency",
        PoolError::NotInsertedLimitHit => "limit-hit",
        PoolError::UtxoInputWasAlreadySpent(_) => "utxo-already-spent",
        PoolError::MessageInputWasAlreadySpent(_) => "message-already-spent",
        _ => "other",
    }
}

pub fn new_sim<'a>(ctx: &'a mut Ctx, k: Knobs, seed: [u8; 32]) -> Sim<'a> {
    let rt = tokio::runtime::Builder::new_current_thread()
        .enable_time()
        .start_paused(true)
        .rng_seed(tokio::runtime::RngSeed::from_bytes(&seed))
        .build()
        .expect("runtime");
    let db = SimDb::new();
    let tsm = Arc::new(RecordingTsm::new(4096));
    let config = make_config(&k);
    let worker = {
        let _g = rt.enter();
        Worker::new(
            config,
            Arc::new(SimDbProvider(db.clone())),
            tsm.clone(),
            BlockHeight::new(0),
            1 << 12,
        )
    };
    Sim {
        ctx,
        k,
        cp: txs::consensus_params(),
        rt,
        worker,
        tsm,
        db,
        txs: BTreeMap::new(),
        specs: BTreeMap::new(),
        order: Vec::new(),
        unsubmitted: Vec::new(),
        awaited: Vec::new(),
        pool: BTreeSet::new(),
        parents: BTreeMap::new(),
        handed: BTreeMap::new(),
        unsettled: BTreeMap::new(),
        tentative: BTreeMap::new(),
        tip: 0,
        lru_keys: BTreeSet::new(),
        committed_from_pool: BTreeSet::new(),
        tainted: BTreeSet::new(),
        pruner_times: VecDeque::new(),
        height_exp: BTreeMap::new(),
        expect_resubmit: Vec::new(),
        claims: BTreeMap::new(),
        lost_child_to_preconf: BTreeSet::new(),
        lost_child_to_block: BTreeSet::new(),
        late_extracted: BTreeSet::new(),
        resolutions: BTreeMap::new(),
        last_block: None,
        q_extract: VecDeque::new(),
        q_preconf: VecDeque::new(),
        q_update: VecDeque::new(),
        q_read: VecDeque::new(),
        q_insert: VecDeque::new(),
        worker_steps: 0,
        stale_preconf: false,
        direct_skip: None,
        gone_contracts: BTreeMap::new(),
        advertised: BTreeMap::new(),
        stop: false,
    }
}
