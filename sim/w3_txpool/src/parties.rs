//! The simulated parties: RPC clients and gossip peers (transaction generation and
//! submission), the block producer (extraction), the preconfirmation publisher, the block
//! importer (which owns the on-chain model), the TTL pruner and readers. Every choice comes
//! from the tape; value 0 is always the plainest choice.

use crate::{
    chain::{
        CoinRec,
        MsgRec,
    },
    txs::{
        self,
        CoinIn,
        InSpec,
        Kind,
        MsgIn,
        OutSpec,
        TxRec,
        TxSpec,
    },
    world::{
        ExtractReq,
        Knobs,
        PreconfKind,
        PreconfReq,
        RKey,
        ReadReq,
        Sim,
        UpdateReq,
    },
};
use fuel_core_types::{
    fuel_tx::{
        AssetId,
        ContractId,
        Output,
        TxId,
        UtxoId,
    },
    fuel_types::Nonce,
};
use simkit::{
    Ctx,
    Tier,
};
use std::collections::BTreeSet;

pub const COIN_AMOUNT: u64 = 1_000_000;
pub const START_MS: i64 = 1_700_000_000_000;

/// `hash_seed` is the first tape value of the run (it seeds the std hash maps and tokio). The
/// swarm modes that were added after the first replays were recorded (`p_join`, `p_rival`) are
/// derived from it instead of from new draws, so that older tapes keep their meaning; value 0
/// switches both off, and a mode that is off draws nothing and changes no weight.
pub fn draw_knobs(ctx: &mut Ctx, hash_seed: u64) -> Knobs {
    let p_join = [0u64, 20, 45][(hash_seed % 3) as usize];
    let p_rival = [0u64, 15, 35][((hash_seed >> 8) % 3) as usize];
    let t = &mut ctx.tape;
    let max_txs = 2 + t.choose(7) as usize;
    let max_gas = match t.choose(3) {
        0 | 1 => u64::MAX / 4,
        _ => (2 + t.choose(7)) * 700,
    };
    let max_bytes = match t.choose(3) {
        0 | 1 => usize::MAX / 4,
        _ => (300 + t.choose(1700)) as usize,
    };
    let mut chain_count = 2 + t.choose(3) as usize;
    if p_join > 0 {
        // a transaction with two pooled parents needs room for three in its chain
        chain_count = chain_count.max(3);
    }
    let max_txs = if p_join > 0 { max_txs.max(3) } else { max_txs };
    let pending_pct = *t.pick(&[100u16, 50, 100, 0, 25]);
    let pending_ttl_ms = *t.pick(&[3000u64, 3000, 100, 10]);
    let tx_ttl_ms = *t.pick(&[600_000u64, 1000, 50]);
    let n_coins = 4 + t.choose(9) as usize;
    let n_msgs = t.choose(5) as usize;
    let steps = 20
        + t.choose(if ctx.tier == Tier::Thorough { 141 } else { 51 });
    let fault_free = t.chance(1, 8);
    let mut db_fault_pct = *t.pick(&[0u64, 0, 5, 15]);
    let mut adversarial = t.coin();
    if fault_free {
        db_fault_pct = 0;
        adversarial = false;
    }
    let p_multi_input = *t.pick(&[10u64, 30, 60]);
    let p_dependent = *t.pick(&[30u64, 10, 50]);
    let p_collide = *t.pick(&[20u64, 5, 40]);
    let mut p_conflict_handed = *t.pick(&[10u64, 0, 30]);
    let p_batch = *t.pick(&[20u64, 0, 50]);
    // submit, extract, preconf, block, prune/clock, read, run worker
    let mut w = [40u64, 12, 12, 10, 6, 3, 16];
    for x in w.iter_mut().skip(1) {
        *x = *x * *t.pick(&[2u64, 1, 3, 0]) / 2;
    }
    // The workload leans towards the operations the property under check speaks about; one
    // run in three takes the mix of a tape-chosen property instead, so that every check also
    // sees the other mixes (and every history is replayable from its tape alone).
    const PROPS: [&str; 6] = ["C16", "C17", "C18", "C19", "C20", "C21"];
    let bias = if t.chance(1, 3) {
        PROPS[t.choose(6) as usize]
    } else {
        ctx.prop.as_str()
    };
    match bias {
        "C18" => w[1] += 10,
        "C19" => p_conflict_handed += 10,
        "C20" => {
            w[2] += 8;
            w[3] += 6;
        }
        "C21" => w[4] += 4,
        // families are only interesting when blocks and extractions cut through them
        "C17" if p_join > 0 => {
            w[1] += 4;
            w[3] += 4;
        }
        _ => {}
    }
    if bias == "C18" && p_join > 0 {
        w[3] += 4;
    }
    Knobs {
        max_txs,
        max_gas,
        max_bytes,
        chain_count,
        pending_pct,
        pending_ttl_ms,
        tx_ttl_ms,
        n_coins,
        n_msgs,
        steps,
        db_fault_pct,
        adversarial,
        p_multi_input,
        p_dependent,
        p_collide,
        p_conflict_handed,
        p_batch,
        w_actions: w,
        p_join,
        p_rival,
    }
}

fn genesis_utxo(i: usize) -> UtxoId {
    UtxoId::new([(i + 1) as u8; 32].into(), 0)
}
fn genesis_nonce(i: usize) -> Nonce {
    [0x50 + i as u8; 32].into()
}

impl<'a> Sim<'a> {
    pub fn genesis(&mut self) {
        let (n_coins, n_msgs) = (self.k.n_coins, self.k.n_msgs);
        let contract_on_chain = self.ctx.tape.coin();
        let blob_on_chain = self.ctx.tape.chance(1, 4);
        self.db.with(|c| {
            for i in 0..n_coins {
                c.coins.insert(
                    genesis_utxo(i),
                    CoinRec {
                        owner: txs::owner(0),
                        amount: COIN_AMOUNT,
                        asset: AssetId::BASE,
                    },
                );
            }
            for i in 0..n_msgs {
                c.messages.insert(
                    genesis_nonce(i),
                    MsgRec {
                        sender: txs::owner(1),
                        recipient: txs::owner(0),
                        amount: 5000,
                        data: if i == 3 { vec![1, 2, 3] } else { vec![] },
                    },
                );
            }
            if contract_on_chain {
                c.contracts.insert(txs::contract_id_of(0));
            }
            if blob_on_chain {
                c.blobs.insert(txs::blob_id_of(0));
            }
        });
    }

    // =====================================================================================
    // transaction generation
    // =====================================================================================

    fn coin_used_by_pool(&self, u: &UtxoId) -> bool {
        self.pool.iter().any(|p| self.txs[p].spends_coin(u))
    }

    fn coin_output_rec(&self, u: &UtxoId) -> Option<CoinRec> {
        let t = self.txs.get(u.tx_id())?;
        match t.outputs.get(u.output_index() as usize)? {
            Output::Coin {
                to,
                amount,
                asset_id,
            } => Some(CoinRec {
                owner: *to,
                amount: *amount,
                asset: *asset_id,
            }),
            _ => None,
        }
    }

    /// Candidate coin inputs by category (see the order of the weights in `pick_coin`).
    fn coin_candidates(&self, cat: usize) -> Vec<(UtxoId, CoinRec)> {
        let default_rec = CoinRec {
            owner: txs::owner(0),
            amount: 1000,
            asset: AssetId::BASE,
        };
        let mut out = Vec::new();
        match cat {
            // unspent on chain, untouched
            0 => self.db.with(|c| {
                for (u, r) in &c.coins {
                    if !self.coin_used_by_pool(u) && !self.unsettled.contains_key(&RKey::Coin(*u)) {
                        out.push((*u, r.clone()));
                    }
                }
            }),
            // unspent on chain, already used by a pooled transaction (collision)
            1 => self.db.with(|c| {
                for (u, r) in &c.coins {
                    if self.coin_used_by_pool(u) {
                        out.push((*u, r.clone()));
                    }
                }
            }),
            // coin output of a pooled transaction (2: unused, 3: already used)
            2 | 3 => {
                for p in &self.pool {
                    for (i, _) in self.txs[p].outputs.iter().enumerate() {
                        let u = UtxoId::new(*p, i as u16);
                        if let Some(r) = self.coin_output_rec(&u) {
                            if self.coin_used_by_pool(&u) == (cat == 3) {
                                out.push((u, r));
                            }
                        }
                    }
                }
            }
            // live output of a handed-out transaction
            4 => {
                for (id, h) in &self.handed {
                    for (i, r) in &h.coins {
                        out.push((UtxoId::new(*id, *i), r.clone().unwrap_or(default_rec.clone())));
                    }
                }
            }
            // input of a handed-out, unsettled transaction
            5 => {
                for (k, spender) in &self.unsettled {
                    if let RKey::Coin(u) = k {
                        if let Some(c) = self.txs.get(spender).and_then(|t| t.coins.iter().find(|c| &c.utxo == u)) {
                            out.push((*u, CoinRec { owner: c.owner, amount: c.amount, asset: c.asset }));
                        }
                    }
                }
            }
            // dead: spent on chain, or output of a transaction that is nowhere
            6 => {
                self.db.with(|c| {
                    for (u, _) in &c.spent_coins {
                        out.push((*u, CoinRec { owner: txs::owner(0), amount: COIN_AMOUNT, asset: AssetId::BASE }));
                    }
                });
                for (id, t) in &self.txs {
                    if self.pool.contains(id) || self.handed.contains_key(id) || self.unsubmitted.contains(id) {
                        continue;
                    }
                    if self.db.with(|c| c.txs.contains(id)) {
                        continue;
                    }
                    for (i, _) in t.outputs.iter().enumerate() {
                        let u = UtxoId::new(*id, i as u16);
                        if let Some(r) = self.coin_output_rec(&u) {
                            out.push((u, r));
                        }
                    }
                }
                out.push((UtxoId::new([0xEE; 32].into(), 7), default_rec.clone()));
            }
            // output of a transaction nobody submitted yet (ends up in the pending pool)
            7 => {
                for id in &self.unsubmitted {
                    for (i, _) in self.txs[id].outputs.iter().enumerate() {
                        let u = UtxoId::new(*id, i as u16);
                        if let Some(r) = self.coin_output_rec(&u) {
                            out.push((u, r));
                        }
                    }
                }
            }
            // change / variable output of a pooled or handed-out transaction
            _ => {
                for id in self.pool.iter().chain(self.handed.keys()) {
                    let Some(t) = self.txs.get(id) else { continue };
                    for (i, o) in t.outputs.iter().enumerate() {
                        if matches!(o, Output::Change { .. } | Output::Variable { .. }) {
                            out.push((UtxoId::new(*id, i as u16), default_rec.clone()));
                        }
                    }
                }
            }
        }
        out
    }

    /// `boost` is added to the weight of coins that a pooled transaction already spends.
    fn pick_coin(&mut self, taken: &[UtxoId], boost: u64) -> Option<CoinIn> {
        let k = &self.k;
        let w = [
            60u64,
            k.p_collide + boost,
            k.p_dependent,
            (k.p_collide + boost) / 2,
            10,
            k.p_conflict_handed,
            6,
            12,
            3,
        ];
        let first = self.ctx.tape.weighted(&w);
        for off in 0..w.len() {
            let cat = (first + off) % w.len();
            let mut cands = self.coin_candidates(cat);
            cands.retain(|(u, _)| !taken.contains(u));
            if cands.is_empty() {
                continue;
            }
            let (u, mut r) = cands[self.ctx.tape.below(cands.len())].clone();
            if cat == 7 && !self.awaited.contains(u.tx_id()) {
                self.awaited.push(*u.tx_id());
            }
            // rarely claim wrong fields
            if self.ctx.tape.chance(1, 30) {
                match self.ctx.tape.choose(3) {
                    0 => r.amount = r.amount.saturating_add(1),
                    1 => r.owner = txs::owner(1),
                    _ => r.asset = [7u8; 32].into(),
                }
                self.ctx.probe("gen_mismatching_input");
            }
            return Some(CoinIn {
                utxo: u,
                owner: r.owner,
                amount: r.amount,
                asset: r.asset,
            });
        }
        None
    }

    fn pick_msg(&mut self, taken: &[Nonce]) -> Option<MsgIn> {
        let mut cands: Vec<(Nonce, MsgRec)> = self
            .db
            .with(|c| c.messages.iter().map(|(n, r)| (*n, r.clone())).collect());
        // spent or never existing
        if self.ctx.tape.chance(1, 10) {
            let spent: Vec<Nonce> = self.db.with(|c| c.spent_messages.keys().copied().collect());
            let rec = MsgRec {
                sender: txs::owner(1),
                recipient: txs::owner(0),
                amount: 5000,
                data: vec![],
            };
            for n in spent {
                cands.push((n, rec.clone()));
            }
            cands.push(([0x7F; 32].into(), rec));
        }
        cands.retain(|(n, _)| !taken.contains(n));
        if cands.is_empty() {
            return None;
        }
        let (n, mut r) = cands[self.ctx.tape.below(cands.len())].clone();
        if self.ctx.tape.chance(1, 30) {
            r.amount += 1;
            self.ctx.probe("gen_mismatching_input");
        }
        Some(MsgIn {
            nonce: n,
            sender: r.sender,
            recipient: r.recipient,
            amount: r.amount,
            data: r.data,
        })
    }

    /// Builds a new transaction (not submitted yet). `None` if the draw was not a valid
    /// transaction (stateless checks of `into_checked_basic`).
    pub fn gen_tx(&mut self) -> Option<TxId> {
        // a transaction joining outputs of several pooled transactions
        if self.k.p_join > 0 && self.ctx.tape.chance(self.k.p_join, 100) {
            if let Some(r) = self.gen_join() {
                return r;
            }
        }
        // replacement of a known transaction: same shape, different tip
        if !self.order.is_empty()
            && self.ctx.tape.chance(self.k.p_collide + self.k.p_rival, 200)
        {
            let base = if !self.pool.is_empty() && self.ctx.tape.chance(3, 4) {
                let v: Vec<TxId> = self.pool.iter().copied().collect();
                v[self.ctx.tape.below(v.len())]
            } else {
                self.order[self.ctx.tape.below(self.order.len())]
            };
            let mut spec = self.specs[&base].clone();
            let old = spec.tip;
            spec.tip = match self.ctx.tape.choose(5) {
                0 => old + 1,
                1 => old,
                2 => old.saturating_sub(1),
                3 => old * 2 + 3,
                _ => old + 1 + self.ctx.tape.choose(20),
            };
            spec.salt = spec.salt.wrapping_add(5); // same witness length => same gas
            self.ctx.probe("gen_replacement");
            if self.k.p_rival > 0 && self.ctx.tape.chance(2 * self.k.p_rival, 100) {
                // a rival rather than a replacement: it keeps what it contests with the
                // original (blob id, contract, the other inputs) but one coin input is drawn
                // anew, preferably one that some pooled transaction spends already
                let coin_ix: Vec<usize> = spec
                    .inputs
                    .iter()
                    .enumerate()
                    .filter(|(_, i)| matches!(i, InSpec::Coin(_)))
                    .map(|(i, _)| i)
                    .collect();
                if !coin_ix.is_empty() {
                    let ix = coin_ix[self.ctx.tape.below(coin_ix.len())];
                    let taken: Vec<UtxoId> = spec
                        .inputs
                        .iter()
                        .enumerate()
                        .filter_map(|(i, x)| match x {
                            InSpec::Coin(c) if i != ix => Some(c.utxo),
                            _ => None,
                        })
                        .collect();
                    if let Some(c) = self.pick_coin(&taken, 80) {
                        spec.inputs[ix] = InSpec::Coin(c);
                        self.ctx.probe("gen_rival");
                    }
                }
            }
            return self.register(spec);
        }

        let kind_w: [u64; 3] = if self.k.p_rival > 0 { [60, 15, 25] } else { [80, 12, 8] };
        let kind = match self.ctx.tape.weighted(&kind_w) {
            0 => Kind::Script,
            1 => Kind::Create {
                code: self.ctx.tape.choose(3) as u8,
            },
            _ => Kind::Blob {
                payload: self.ctx.tape.choose(3) as u8,
            },
        };
        let mut n_inputs = 1;
        while n_inputs < 4 && self.ctx.tape.chance(self.k.p_multi_input, 100) {
            n_inputs += 1;
        }
        let mut inputs = Vec::new();
        let mut taken_coins = Vec::new();
        let mut taken_msgs = Vec::new();
        let mut taken_contracts: Vec<ContractId> = Vec::new();
        let mut total_in: u64 = 0;
        for i in 0..n_inputs {
            let what = if i == 0 {
                self.ctx.tape.weighted(&[85, 15])
            } else {
                self.ctx.tape.weighted(&[70, 12, 18])
            };
            match what {
                0 => {
                    if let Some(c) = self.pick_coin(&taken_coins, 0) {
                        taken_coins.push(c.utxo);
                        if c.asset == AssetId::BASE {
                            total_in = total_in.saturating_add(c.amount);
                        }
                        inputs.push(InSpec::Coin(c));
                    }
                }
                1 => {
                    if let Some(m) = self.pick_msg(&taken_msgs) {
                        taken_msgs.push(m.nonce);
                        if m.data.is_empty() {
                            total_in = total_in.saturating_add(m.amount);
                        }
                        inputs.push(InSpec::Msg(m));
                    }
                }
                _ => {
                    if matches!(kind, Kind::Script) {
                        let c = txs::contract_id_of(self.ctx.tape.choose(4) as u8);
                        if !taken_contracts.contains(&c) {
                            taken_contracts.push(c);
                            inputs.push(InSpec::Contract(c));
                        }
                    }
                }
            }
        }
        if total_in == 0 {
            // at least one spendable input
            let c = self.pick_coin(&taken_coins, 0)?;
            total_in = c.amount;
            inputs.insert(0, InSpec::Coin(c));
        }
        self.finish_tx(kind, inputs, total_in, false)
    }

    /// Inputs: one unused coin output of each of two (rarely three) different pooled
    /// transactions, sometimes fresh funds from the chain on top. `None`: the pool does not
    /// offer that right now.
    fn gen_join(&mut self) -> Option<Option<TxId>> {
        let mut by_creator: std::collections::BTreeMap<TxId, Vec<(UtxoId, CoinRec)>> =
            Default::default();
        for (u, r) in self.coin_candidates(2) {
            by_creator.entry(*u.tx_id()).or_default().push((u, r));
        }
        if by_creator.len() < 2 {
            self.ctx.probe("gen_join_not_possible");
            return None;
        }
        // in order of creation, so that tape value 0 is the oldest transaction
        let mut creators: Vec<TxId> = by_creator.keys().copied().collect();
        creators.sort_by_key(|c| self.txs[c].n);
        let want = if creators.len() > 2 && self.ctx.tape.chance(1, 4) { 3 } else { 2 };
        let mut inputs = Vec::new();
        let mut taken = Vec::new();
        let mut total_in: u64 = 0;
        for _ in 0..want {
            let c = creators.remove(self.ctx.tape.below(creators.len()));
            let outs = &by_creator[&c];
            let (u, r) = outs[self.ctx.tape.below(outs.len())].clone();
            if r.asset == AssetId::BASE {
                total_in = total_in.saturating_add(r.amount);
            }
            taken.push(u);
            inputs.push(InSpec::Coin(CoinIn {
                utxo: u,
                owner: r.owner,
                amount: r.amount,
                asset: r.asset,
            }));
        }
        if self.ctx.tape.chance(1, 3) {
            if let Some(c) = self.pick_coin(&taken, 0) {
                if c.asset == AssetId::BASE {
                    total_in = total_in.saturating_add(c.amount);
                }
                inputs.push(InSpec::Coin(c));
            }
        }
        self.ctx.probe("gen_join");
        Some(self.finish_tx(Kind::Script, inputs, total_in, false))
    }

    /// Outputs and policies of a new transaction with the given inputs.
    /// `coin_out_first`: output 0 is a coin output in any case.
    fn finish_tx(
        &mut self,
        kind: Kind,
        inputs: Vec<InSpec>,
        total_in: u64,
        coin_out_first: bool,
    ) -> Option<TxId> {
        // families need coin outputs to grow on
        let n_out_w: [u64; 4] = if self.k.p_join > 0 { [10, 40, 30, 20] } else { [25, 45, 20, 10] };
        let n_out = self.ctx.tape.weighted(&n_out_w);
        let mut outputs = Vec::new();
        let share = (total_in / (2 * (n_out as u64 + 1 + coin_out_first as u64))).max(1);
        if coin_out_first {
            outputs.push(OutSpec::Coin {
                to: txs::owner(0),
                amount: share,
            });
        }
        let mut change_used = false;
        for _ in 0..n_out {
            match self.ctx.tape.weighted(&[75, 15, 10]) {
                0 => outputs.push(OutSpec::Coin {
                    to: txs::owner(0),
                    amount: share,
                }),
                1 if !change_used => {
                    change_used = true;
                    outputs.push(OutSpec::Change { to: txs::owner(0) });
                }
                _ => outputs.push(OutSpec::Variable),
            }
        }
        let tip = match self.ctx.tape.choose(4) {
            0 => 0,
            1 | 2 => self.ctx.tape.choose(12),
            _ => self.ctx.tape.choose(2000),
        };
        let script_gas_limit = *self.ctx.tape.pick(&[0u64, 100, 1, 1000, 300]);
        let declared_size = *self.ctx.tape.pick(&[200usize, 100, 400, 50, 1000]);
        let max_gas_price = *self.ctx.tape.pick(&[10u64, 0, 1, 5, 100]);
        let expiration = if self.ctx.tape.chance(1, 8) {
            Some(self.next_height() + self.ctx.tape.choose(4) as u32)
        } else {
            None
        };
        let salt = self.ctx.tape.choose(5) as u8;
        let spec = TxSpec {
            kind,
            inputs,
            outputs,
            tip,
            script_gas_limit,
            expiration,
            declared_size,
            max_gas_price,
            salt,
        };
        self.register(spec)
    }

    pub fn next_height(&self) -> u32 {
        self.db.with(|c| c.height) + 1
    }

    fn register(&mut self, spec: TxSpec) -> Option<TxId> {
        let n = self.order.len();
        match txs::build(n, &spec, &self.cp, self.next_height()) {
            Ok(rec) => {
                if self.txs.contains_key(&rec.id) {
                    // identical draw: the existing transaction is simply reused
                    return Some(rec.id);
                }
                let id = rec.id;
                let rivals = self
                    .pool
                    .iter()
                    .filter(|p| rec.conflicts_with(&self.txs[*p]).is_some())
                    .count();
                if rivals > 1 {
                    self.ctx.probe("gen_conflicts_with_several_pooled");
                    if rec.blob.is_some() {
                        self.ctx.probe("gen_blob_conflicts_with_several_pooled");
                    }
                }
                self.ctx.ev(format!("  built {}", self.describe(&rec)));
                self.txs.insert(id, rec);
                self.specs.insert(id, spec);
                self.order.push(id);
                self.unsubmitted.push(id);
                Some(id)
            }
            Err(e) => {
                self.ctx.probe("gen_stateless_invalid");
                let short: String = e.chars().take(60).collect();
                self.ctx.ev(format!("  draw rejected by stateless checks: {short}"));
                None
            }
        }
    }

    fn describe(&self, t: &TxRec) -> String {
        let ins: Vec<String> = t
            .coins
            .iter()
            .map(|c| self.utxo_name(&c.utxo))
            .chain(t.msgs.iter().map(|m| txs::nonce_str(&m.nonce)))
            .chain(t.contracts_in.iter().map(|c| format!("c{}", txs::short(c.as_ref()))))
            .collect();
        let outs: Vec<String> = t
            .outputs
            .iter()
            .map(|o| match o {
                Output::Coin { amount, .. } => format!("coin{amount}"),
                Output::Change { .. } => "change".into(),
                Output::Variable { .. } => "var".into(),
                Output::Contract(_) => "contract".into(),
                Output::ContractCreated { contract_id, .. } => {
                    format!("create-c{}", txs::short(contract_id.as_ref()))
                }
            })
            .collect();
        format!(
            "t{} in[{}] out[{}] tip={} gas={} size={} price={} exp={}{}",
            t.n,
            ins.join(","),
            outs.join(","),
            t.tip,
            t.gas,
            t.size,
            t.price,
            if t.expiration == u32::MAX { "-".to_string() } else { t.expiration.to_string() },
            t.blob.map(|b| format!(" blob{}", txs::short(b.as_ref()))).unwrap_or_default()
        )
    }

    // =====================================================================================
    // parties
    // =====================================================================================

    /// A wallet sends a small family at once: two (rarely three) transactions with a coin
    /// output each and one transaction that spends an output of every one of them. Usually in
    /// order of dependency, sometimes not (the child then waits in the pending pool).
    fn submit_family(&mut self) {
        let n_roots = if self.ctx.tape.chance(1, 4) { 3 } else { 2 };
        let mut taken: Vec<UtxoId> = Vec::new();
        let mut family: Vec<TxId> = Vec::new();
        let mut inputs = Vec::new();
        let mut total_in: u64 = 0;
        for _ in 0..n_roots {
            let Some(c) = self.pick_coin(&taken, 0) else { continue };
            taken.push(c.utxo);
            let amount = c.amount;
            let Some(id) = self.finish_tx(Kind::Script, vec![InSpec::Coin(c)], amount, true) else {
                continue;
            };
            if family.contains(&id) {
                continue;
            }
            family.push(id);
            let u = UtxoId::new(id, 0);
            if let Some(r) = self.coin_output_rec(&u) {
                total_in = total_in.saturating_add(r.amount);
                inputs.push(InSpec::Coin(CoinIn {
                    utxo: u,
                    owner: r.owner,
                    amount: r.amount,
                    asset: r.asset,
                }));
            }
        }
        if inputs.len() > 1 {
            if let Some(id) = self.finish_tx(Kind::Script, inputs, total_in, false) {
                family.push(id);
                self.ctx.probe("gen_family");
            }
        }
        if self.ctx.tape.chance(1, 4) {
            self.ctx.tape.shuffle(&mut family);
        }
        for id in family {
            if !self.unsubmitted.contains(&id) {
                continue; // an identical draw of something that is on its way already
            }
            self.unsubmitted.retain(|x| *x != id);
            let from_p2p = self.ctx.tape.chance(1, 3);
            self.ctx.op(format!(
                "{} submits {} (new, family)",
                if from_p2p { "peer" } else { "client" },
                self.name(&id)
            ));
            let tx = self.txs[&id].pool_tx.clone();
            assert!(self.worker.enqueue_insert(tx, from_p2p));
            self.q_insert.push_back(id);
        }
    }

    pub fn act_submit(&mut self) {
        if self.k.p_join > 0 && self.ctx.tape.chance(self.k.p_join / 3, 100) {
            self.submit_family();
            return;
        }
        let count = if self.ctx.tape.chance(self.k.p_batch, 100) {
            2 + self.ctx.tape.choose(2)
        } else {
            1
        };
        for _ in 0..count {
            let id = if !self.expect_resubmit.is_empty() && self.ctx.tape.chance(2, 3) {
                let i = self.ctx.tape.below(self.expect_resubmit.len());
                let id = self.expect_resubmit[i];
                if !self.resubmittable(&id) {
                    // something else happened to it meanwhile: no expectation any more
                    self.expect_resubmit.remove(i);
                    self.ctx.probe("resubmit_after_rollback_not_applicable");
                }
                Some(id)
            } else if !self.awaited.is_empty() && self.ctx.tape.chance(1, 3) {
                // the parent some parked child is waiting for finally shows up
                let id = self.awaited.remove(0);
                if self.unsubmitted.contains(&id) {
                    self.ctx.probe("awaited_parent_submitted");
                    Some(id)
                } else {
                    None
                }
            } else {
                match self.ctx.tape.weighted(&[66, 20, 14]) {
                    0 => self.gen_tx(),
                    1 if !self.unsubmitted.is_empty() => {
                        let i = self.ctx.tape.below(self.unsubmitted.len());
                        Some(self.unsubmitted[i])
                    }
                    _ if !self.order.is_empty() => {
                        // resubmission of something known: pooled, handed out, committed, or
                        // gone (squeezed, skipped, rolled back, never admitted)
                        self.ctx.probe("resubmission");
                        let recent = self.order.len().min(12);
                        let from = self.order.len() - recent;
                        let i = from + self.ctx.tape.below(recent);
                        Some(self.order[i])
                    }
                    _ => self.gen_tx(),
                }
            };
            let Some(id) = id else { continue };
            // sometimes the author keeps it for later (children may arrive first)
            if self.unsubmitted.contains(&id) && self.ctx.tape.chance(1, 10) {
                self.ctx.op(format!("client keeps {} for later", self.name(&id)));
                continue;
            }
            let state = self.state_of(&id);
            self.unsubmitted.retain(|x| *x != id);
            let from_p2p = self.ctx.tape.chance(1, 3);
            self.ctx.op(format!(
                "{} submits {} ({state})",
                if from_p2p { "peer" } else { "client" },
                self.name(&id)
            ));
            let tx = self.txs[&id].pool_tx.clone();
            assert!(self.worker.enqueue_insert(tx, from_p2p));
            self.q_insert.push_back(id);
        }
    }

    pub fn state_of(&self, id: &TxId) -> &'static str {
        if self.pool.contains(id) {
            "pooled"
        } else if self.db.with(|c| c.txs.contains(id)) {
            "committed"
        } else if self.handed.contains_key(id) {
            "handed-out"
        } else if self.unsubmitted.contains(id) {
            "new"
        } else {
            "known"
        }
    }

    pub fn act_extract(&mut self) {
        let pool_gas: Vec<u64> = self.pool.iter().map(|p| self.txs[p].gas).collect();
        // tape value 0 everywhere = "give me everything"
        let tight = self.ctx.tape.weighted(&[45, 40, 15]);
        let lim = |t: &mut simkit::Tape, tight: usize| -> bool {
            match tight {
                0 => false,
                1 => t.chance(1, 4),
                _ => t.chance(3, 4),
            }
        };
        let max_gas = if lim(&mut self.ctx.tape, tight) {
            match self.ctx.tape.choose(3) {
                0 if !pool_gas.is_empty() => {
                    let g = pool_gas[self.ctx.tape.below(pool_gas.len())];
                    g + self.ctx.tape.choose(3) * 400
                }
                1 => 0,
                _ => 300 + self.ctx.tape.choose(3000),
            }
        } else {
            u64::MAX
        };
        let max_txs = if lim(&mut self.ctx.tape, tight) {
            *self.ctx.tape.pick(&[1u16, 2, 0, 3])
        } else {
            u16::MAX
        };
        let max_size = if lim(&mut self.ctx.tape, tight) {
            match self.ctx.tape.choose(4) {
                0 => 0,
                _ => 50 + self.ctx.tape.choose(1200) as u32,
            }
        } else {
            u32::MAX
        };
        let min_price = if lim(&mut self.ctx.tape, tight) {
            *self.ctx.tape.pick(&[1u64, 5, 10, 100, 101])
        } else {
            0
        };
        let mut excluded = BTreeSet::new();
        if self.ctx.tape.chance(1, 4) {
            for code in 0..4u8 {
                if self.ctx.tape.coin() {
                    excluded.insert(txs::contract_id_of(code));
                }
            }
        }
        self.ctx.op(format!(
            "producer asks for transactions gas<={max_gas} txs<={max_txs} size<={max_size} price>={min_price} excluded={}",
            excluded.len()
        ));
        let mut req = ExtractReq {
            max_gas,
            max_txs,
            max_size,
            min_price,
            excluded,
            rx: tokio::sync::oneshot::channel().1,
        };
        let rx = self
            .worker
            .enqueue_extract(Sim::constraints_of(&req))
            .expect("extract queue");
        req.rx = rx;
        self.q_extract.push_back(req);
    }

    /// Resolved (executed) outputs of a transaction, decided once.
    fn resolution(&mut self, id: &TxId) -> std::collections::BTreeMap<u16, CoinRec> {
        if let Some(r) = self.resolutions.get(id) {
            return r.clone();
        }
        let mut out = std::collections::BTreeMap::new();
        if let Some(t) = self.txs.get(id).cloned() {
            for (i, o) in t.outputs.iter().enumerate() {
                match o {
                    Output::Coin {
                        to,
                        amount,
                        asset_id,
                    } => {
                        out.insert(
                            i as u16,
                            CoinRec {
                                owner: *to,
                                amount: *amount,
                                asset: *asset_id,
                            },
                        );
                    }
                    Output::Change { to, asset_id, .. } => {
                        out.insert(
                            i as u16,
                            CoinRec {
                                owner: *to,
                                amount: 1 + self.ctx.tape.choose(500),
                                asset: *asset_id,
                            },
                        );
                    }
                    Output::Variable { .. } => {
                        if self.ctx.tape.coin() {
                            out.insert(
                                i as u16,
                                CoinRec {
                                    owner: txs::owner(0),
                                    amount: 1 + self.ctx.tape.choose(500),
                                    asset: AssetId::BASE,
                                },
                            );
                        }
                    }
                    _ => {}
                }
            }
        }
        self.resolutions.insert(*id, out.clone());
        out
    }

    pub fn act_preconf(&mut self) {
        // target
        let handed: Vec<TxId> = self.handed.keys().copied().collect();
        let pooled: Vec<TxId> = self.pool.iter().copied().collect();
        let mut target: Option<TxId> = None;
        let first = self.ctx.tape.weighted(&[45, 25, 15, 10, 5]);
        for off in 0..5 {
            match (first + off) % 5 {
                0 if !handed.is_empty() => {
                    target = Some(handed[self.ctx.tape.below(handed.len())]);
                }
                1 if !pooled.is_empty() => {
                    target = Some(pooled[self.ctx.tape.below(pooled.len())]);
                }
                2 => {
                    // a transaction the pool never saw (the sentry case)
                    if self.unsubmitted.is_empty() {
                        self.gen_tx();
                    }
                    if !self.unsubmitted.is_empty() {
                        target = Some(self.unsubmitted[self.ctx.tape.below(self.unsubmitted.len())]);
                    }
                }
                3 if !self.order.is_empty() => {
                    target = Some(self.order[self.ctx.tape.below(self.order.len())]);
                }
                4 => {
                    let mut b = [0xAB; 32];
                    b[1] = self.ctx.tape.choose(3) as u8;
                    target = Some(b.into());
                }
                _ => {}
            }
            if target.is_some() {
                break;
            }
        }
        let Some(tx) = target else { return };
        let kind = match self.ctx.tape.weighted(&[55, 30, 15]) {
            0 => PreconfKind::Success,
            1 => PreconfKind::SqueezedOut,
            _ => PreconfKind::Failure,
        };
        let chain_tip = self.db.with(|c| c.height);
        let height = match self.ctx.tape.weighted(&[70, 18, 12]) {
            0 => chain_tip + 1,
            1 => chain_tip.saturating_sub(self.ctx.tape.choose(2) as u32),
            _ => chain_tip + 2 + self.ctx.tape.choose(2) as u32,
        };
        // a producer executes parents first: unless deliveries are lossy, the preconfirmations
        // of pooled ancestors precede the one of the child
        let mut chain: Vec<TxId> = Vec::new();
        if !matches!(kind, PreconfKind::SqueezedOut) && self.pool.contains(&tx) {
            let lossy = self.k.adversarial && self.ctx.tape.chance(1, 3);
            if lossy {
                if self.parents.get(&tx).map(|p| !p.is_empty()).unwrap_or(false) {
                    self.ctx.fault("parent_preconfirmation_lost");
                }
            } else {
                let mut todo = vec![tx];
                while let Some(x) = todo.pop() {
                    for p in self.parents.get(&x).cloned().unwrap_or_default() {
                        if self.pool.contains(&p) && !chain.contains(&p) {
                            chain.push(p);
                            todo.push(p);
                        }
                    }
                }
                chain.reverse();
            }
        }
        for a in chain {
            self.publish_preconf(a, PreconfKind::Success, height, chain_tip);
        }
        self.publish_preconf(tx, kind, height, chain_tip);
        if self.k.adversarial && self.ctx.tape.chance(1, 12) {
            // gossip duplicate
            let req = self.q_preconf.back().cloned().unwrap();
            let status = self.make_preconf(&req);
            assert!(self.tsm.publish_preconfirmation(tx, status));
            self.q_preconf.push_back(req);
            self.ctx.fault("duplicate_preconfirmation");
        }
    }

    fn publish_preconf(&mut self, tx: TxId, kind: PreconfKind, height: u32, chain_tip: u32) {
        let outputs = if matches!(kind, PreconfKind::SqueezedOut) || self.ctx.tape.chance(2, 5) {
            None
        } else if self.txs.contains_key(&tx) {
            let res = self.resolution(&tx);
            let t = self.txs[&tx].clone();
            let mut v = Vec::new();
            for (i, o) in t.outputs.iter().enumerate() {
                let u = UtxoId::new(tx, i as u16);
                match o {
                    Output::Coin { .. } => v.push((u, o.clone())),
                    Output::Change { to, asset_id, .. } => {
                        if let Some(r) = res.get(&(i as u16)) {
                            v.push((u, Output::change(*to, r.amount, *asset_id)));
                        }
                    }
                    Output::Variable { .. } => {
                        if let Some(r) = res.get(&(i as u16)) {
                            v.push((u, Output::variable(r.owner, r.amount, r.asset)));
                        }
                    }
                    Output::ContractCreated { .. } => v.push((u, o.clone())),
                    Output::Contract(_) => v.push((u, o.clone())),
                }
            }
            Some(v)
        } else {
            // an id nobody knows: the publisher advertises a coin and maybe a contract
            let mut v = vec![(
                UtxoId::new(tx, 0),
                Output::coin(txs::owner(0), 777, AssetId::BASE),
            )];
            if self.ctx.tape.coin() {
                v.push((
                    UtxoId::new(tx, 1),
                    Output::contract_created(txs::contract_id_of(3), Default::default()),
                ));
            }
            Some(v)
        };
        let req = PreconfReq {
            tx,
            kind,
            height,
            outputs,
        };
        self.ctx.op(format!(
            "publisher preconfirms {} ({}) {:?} h={} (chain tip {chain_tip}) outputs={}",
            self.name(&tx),
            self.state_of(&tx),
            req.kind,
            height,
            req.outputs.as_ref().map(|o| o.len() as i64).unwrap_or(-1)
        ));
        if !matches!(req.kind, PreconfKind::SqueezedOut) {
            if let Some(outs) = &req.outputs {
                let adv = self.advertised.entry(tx).or_default();
                for (u, o) in outs {
                    if let Output::Coin { to, amount, asset_id }
                    | Output::Change { to, amount, asset_id }
                    | Output::Variable { to, amount, asset_id } = o
                    {
                        adv.insert(
                            u.output_index(),
                            CoinRec {
                                owner: *to,
                                amount: *amount,
                                asset: *asset_id,
                            },
                        );
                    }
                }
            }
        }
        let status = self.make_preconf(&req);
        assert!(self.tsm.publish_preconfirmation(tx, status));
        self.q_preconf.push_back(req);
    }

    /// Can `t` be executed on the current chain state?
    fn chain_valid(&self, t: &TxRec, created_in_block: &BTreeSet<ContractId>) -> bool {
        self.db.with(|c| {
            if c.txs.contains(&t.id) {
                return false;
            }
            for x in &t.coins {
                match c.coins.get(&x.utxo) {
                    Some(r) if r.owner == x.owner && r.amount == x.amount && r.asset == x.asset => {}
                    _ => return false,
                }
            }
            for m in &t.msgs {
                match c.messages.get(&m.nonce) {
                    Some(r)
                        if r.sender == m.sender
                            && r.recipient == m.recipient
                            && r.amount == m.amount
                            && r.data == m.data => {}
                    _ => return false,
                }
            }
            for x in &t.contracts_in {
                if !c.contracts.contains(x) && !created_in_block.contains(x) {
                    return false;
                }
            }
            for x in &t.created {
                if c.contracts.contains(x) || created_in_block.contains(x) {
                    return false;
                }
            }
            if let Some(b) = &t.blob {
                if c.blobs.contains(b) {
                    return false;
                }
            }
            if t.expiration < c.height + 1 {
                return false;
            }
            true
        })
    }

    pub fn act_block(&mut self) {
        // one block per worker step, and a block is the first update of its batch
        let mut guard = 0;
        while !self.q_update.is_empty() && guard < 64 && !self.stop && !self.ctx.failed() {
            self.worker_step();
            guard += 1;
        }
        if self.stop || self.ctx.failed() {
            return;
        }
        // adversarial: the last block is delivered again
        if self.k.adversarial && self.last_block.is_some() && self.ctx.tape.chance(1, 12) {
            let (h, ids) = self.last_block.clone().unwrap();
            self.ctx
                .op(format!("importer re-delivers block h={h} [{}]", self.names(&ids)));
            self.ctx.fault("block_redelivered");
            let res = self.make_block_result(h, &ids, &BTreeSet::new());
            assert!(self.worker.enqueue_process_block(res));
            self.q_update.push_back(UpdateReq::Block {
                height: h,
                ids,
                stale: true,
            });
            return;
        }
        let chain_tip = self.db.with(|c| c.height);
        let height = if self.ctx.tape.chance(1, 10) {
            chain_tip + 2
        } else {
            chain_tip + 1
        };
        // candidates
        let mut cands: Vec<TxId> = Vec::new();
        let handed: Vec<TxId> = self.handed.keys().copied().collect();
        let p_handed = *self.ctx.tape.pick(&[75u64, 100, 40, 0]);
        for id in handed {
            if self.txs.contains_key(&id) && self.ctx.tape.chance(p_handed, 100) {
                cands.push(id);
            }
        }
        let pooled: Vec<TxId> = self.pool.iter().copied().collect();
        let p_pool = if self.k.p_join > 0 {
            // blocks of another producer cut through the pooled families
            *self.ctx.tape.pick(&[30u64, 15, 50])
        } else {
            *self.ctx.tape.pick(&[0u64, 15, 50])
        };
        for id in pooled {
            if p_pool > 0 && self.ctx.tape.chance(p_pool, 100) {
                cands.push(id);
            }
        }
        if self.ctx.tape.chance(1, 4) {
            // a transaction that never went through this pool
            if self.unsubmitted.is_empty() || self.ctx.tape.coin() {
                self.gen_tx();
            }
            if !self.unsubmitted.is_empty() {
                let awaited: Vec<TxId> = self
                    .awaited
                    .iter()
                    .filter(|a| self.unsubmitted.contains(a))
                    .copied()
                    .collect();
                let id = if !awaited.is_empty() && self.ctx.tape.coin() {
                    awaited[self.ctx.tape.below(awaited.len())]
                } else {
                    self.unsubmitted[self.ctx.tape.below(self.unsubmitted.len())]
                };
                if !cands.contains(&id) {
                    cands.push(id);
                }
            }
        }
        if self.ctx.tape.chance(1, 3) {
            self.ctx.tape.shuffle(&mut cands);
        }
        // select what is executable, parents first
        // validity (expiration) is judged for the block being built
        self.db.with(|c| c.height = height - 1);
        let mut included: Vec<TxId> = Vec::new();
        let mut failed: BTreeSet<TxId> = BTreeSet::new();
        let mut created: BTreeSet<ContractId> = BTreeSet::new();
        loop {
            let mut progress = false;
            for id in cands.clone() {
                if included.contains(&id) {
                    continue;
                }
                let t = self.txs[&id].clone();
                if !self.chain_valid(&t, &created) {
                    continue;
                }
                let fails = matches!(self.specs[&id].kind, Kind::Script) && self.ctx.tape.chance(1, 12);
                let res = self.resolution(&id);
                self.db.with(|c| {
                    for x in &t.coins {
                        c.coins.remove(&x.utxo);
                        c.spent_coins.insert(x.utxo, id);
                    }
                    for m in &t.msgs {
                        c.messages.remove(&m.nonce);
                        c.spent_messages.insert(m.nonce, id);
                    }
                    for (i, o) in t.outputs.iter().enumerate() {
                        let i = i as u16;
                        match o {
                            Output::Coin { .. } if fails => {}
                            Output::Coin { .. } | Output::Change { .. } | Output::Variable { .. } => {
                                if let Some(r) = res.get(&i) {
                                    c.coins.insert(UtxoId::new(id, i), r.clone());
                                }
                            }
                            Output::ContractCreated { contract_id, .. } => {
                                c.contracts.insert(*contract_id);
                            }
                            Output::Contract(_) => {}
                        }
                    }
                    if let Some(b) = &t.blob {
                        c.blobs.insert(*b);
                    }
                    c.txs.insert(id);
                });
                created.extend(t.created.iter().copied());
                if fails {
                    failed.insert(id);
                }
                included.push(id);
                progress = true;
            }
            if !progress {
                break;
            }
        }
        self.db.with(|c| c.height = height);
        self.unsubmitted.retain(|x| !included.contains(x));
        self.ctx.op(format!(
            "importer commits block h={height} [{}] failed[{}]",
            self.names_ordered(&included),
            self.names(&failed)
        ));
        let res = self.make_block_result(height, &included, &failed);
        assert!(self.worker.enqueue_process_block(res));
        self.q_update.push_back(UpdateReq::Block {
            height,
            ids: included.clone(),
            stale: false,
        });
        self.last_block = Some((height, included));
        // like `Task::import_block`: height based expiry right after the block
        let hs: Vec<u32> = self.height_exp.range(..=height).map(|(h, _)| *h).collect();
        for h in hs {
            let ids = self.height_exp.remove(&h).unwrap_or_default();
            self.ctx
                .ev(format!("  pruner: expiration height {h} reached for [{}]", self.names(&ids)));
            self.ctx.probe("height_expiry_sent");
            assert!(self.worker.enqueue_expired(ids.clone()));
            self.q_update.push_back(UpdateReq::Expired(ids));
        }
    }

    fn names_ordered(&self, ids: &[TxId]) -> String {
        ids.iter().map(|i| self.name(i)).collect::<Vec<_>>().join(",")
    }

    pub fn act_prune(&mut self) {
        let ttl = self.k.tx_ttl_ms as i64;
        let pend = self.k.pending_ttl_ms as i64;
        let adv = match self.ctx.tape.choose(6) {
            0 => 1,
            1 => 0,
            2 => ttl / 2,
            3 => ttl,
            4 => pend + 1,
            _ => 2 * ttl + 1,
        };
        simkit::clock::advance_ms(adv);
        self.ctx.sim_ms += adv as u64;
        let now = simkit::clock::now_unix_ms();
        let mut ids = Vec::new();
        while let Some((t, id)) = self.pruner_times.back().copied() {
            if now - t < ttl {
                break;
            }
            ids.push(id);
            self.pruner_times.pop_back();
        }
        if self.k.adversarial && self.ctx.tape.chance(1, 5) && !self.order.is_empty() {
            // a confused pruner names arbitrary transactions
            let id = self.order[self.ctx.tape.below(self.order.len())];
            ids.push(id);
            self.ctx.fault("bogus_expiry_id");
        }
        self.ctx.op(format!(
            "clock +{adv}ms; pruner expires [{}]",
            self.names_ordered(&ids)
        ));
        if !ids.is_empty() {
            self.ctx.probe("ttl_expiry_sent");
        }
        assert!(self.worker.enqueue_expired(ids.clone()));
        self.q_update.push_back(UpdateReq::Expired(ids));
    }

    pub fn act_read(&mut self) {
        match self.ctx.tape.choose(3) {
            0 => {
                let max = *self.ctx.tape.pick(&[100usize, 0, 1, 3]);
                self.ctx.op(format!("reader asks for tx ids (max {max})"));
                let rx = self.worker.enqueue_read_tx_ids(max).expect("read queue");
                self.q_read.push_back(ReadReq::TxIds(max, rx));
            }
            which => {
                let mut ids = Vec::new();
                for _ in 0..(1 + self.ctx.tape.choose(3)) {
                    if !self.order.is_empty() {
                        ids.push(self.order[self.ctx.tape.below(self.order.len())]);
                    }
                }
                ids.push([0x99; 32].into());
                ids.dedup();
                if which == 1 {
                    self.ctx.op(format!("reader asks which of {} ids are unknown", ids.len()));
                    let rx = self
                        .worker
                        .enqueue_read_non_existing(ids.clone())
                        .expect("read queue");
                    self.q_read.push_back(ReadReq::NonExisting(ids, rx));
                } else {
                    self.ctx.op(format!("reader looks up {} ids", ids.len()));
                    let ans = self.worker.enqueue_read_txs(ids.clone()).expect("read queue");
                    self.q_read.push_back(ReadReq::Txs(ids, ans));
                }
            }
        }
    }

    pub fn queues_empty(&self) -> bool {
        self.worker.queue_lens().iter().all(|l| *l == 0)
    }

    pub fn run_history(&mut self) {
        self.genesis();
        let steps = self.k.steps;
        for _ in 0..steps {
            if self.stop || self.ctx.failed() {
                return;
            }
            let a = self.ctx.tape.weighted(&self.k.w_actions.clone());
            match a {
                0 => self.act_submit(),
                1 => self.act_extract(),
                2 => self.act_preconf(),
                3 => self.act_block(),
                4 => self.act_prune(),
                5 => self.act_read(),
                _ => {
                    if self.queues_empty() {
                        // idle worker: the pending pool expiry timer fires
                        let adv = *self.ctx.tape.pick(&[0i64, 11, 101, 3001]);
                        simkit::clock::advance_ms(adv);
                        self.ctx.sim_ms += adv as u64;
                        self.ctx.op(format!("idle +{adv}ms"));
                    } else {
                        self.ctx.op("worker runs");
                    }
                    self.worker_step();
                    continue;
                }
            }
            // usually the worker gets to run right away; sometimes requests pile up
            if !self.ctx.tape.chance(self.k.p_batch, 100) {
                let mut guard = 0;
                while !self.queues_empty() && guard < 64 && !self.stop && !self.ctx.failed() {
                    self.worker_step();
                    guard += 1;
                    if self.ctx.tape.chance(1, 10) {
                        break;
                    }
                }
            }
        }
        // drain
        let mut guard = 0;
        while !self.queues_empty() && guard < 200 && !self.stop && !self.ctx.failed() {
            self.worker_step();
            guard += 1;
        }
    }
}
