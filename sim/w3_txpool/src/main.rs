//! W3 txpool — the real `PoolWorker` (pool, pending pool, preconfirmation reconciliation) of
//! `fuel-core-txpool`, built through the guarded `verif_api` hook and stepped explicitly on
//! the simulation thread, wired to simulated parties: RPC clients and gossip peers, a block
//! producer, a preconfirmation publisher, a block importer that owns the on-chain view, a TTL
//! pruner, readers; a recording `TxStatusManager` port and a fault-injecting persistent
//! storage port. Properties: C16, C17, C18, C19, C20, C21.

mod chain;
mod det;
mod parties;
mod tsm;
mod txs;
mod world;

use simkit::{
    Ctx,
    Tier,
    World,
};

struct TxPoolWorld;

impl World for TxPoolWorld {
    fn name(&self) -> &'static str {
        "w3_txpool"
    }
    fn properties(&self) -> Vec<&'static str> {
        vec!["C16", "C17", "C18", "C19", "C20", "C21"]
    }
    fn real_components(&self) -> Vec<&'static str> {
        vec![
            "fuel_core_txpool::pool_worker::PoolWorker::run and everything below it (insert, extract_block_transactions, process_block, process_preconfirmed_transaction, remove_expired_transactions, read requests), stepped through the guarded verif_api hook",
            "fuel_core_txpool::pool::Pool (admission, collisions, eviction for space, extraction, commit, skip, preconfirmation rollback)",
            "fuel_core_txpool::storage::graph::GraphStorage",
            "fuel_core_txpool::collision_manager::basic::BasicCollisionManager",
            "fuel_core_txpool::selection_algorithms::ratio_tip_gas::RatioTipGasSelection",
            "fuel_core_txpool::spent_inputs::SpentInputs (LRU) and extracted_outputs::ExtractedOutputs",
            "fuel_core_txpool::pending_pool::PendingPool",
            "fuel-vm Checked<Script|Create|Blob> transactions built with fuel-tx TransactionBuilder + into_checked_basic",
        ]
    }
    fn stubs(&self) -> Vec<&'static str> {
        vec![
            "RPC clients, gossip peers, block producer, preconfirmation publisher, block importer, TTL pruner (the bookkeeping of service::Task::{process_notification, import_block, try_prune_transactions} is re-implemented by the harness party)",
            "TxPoolPersistentStorage / AtomicView: harness model of the committed state with injected read errors",
            "TxStatusManager: recording port",
            "Verification (signatures, predicates, gas price, consensus rules beyond into_checked_basic) is not run: transactions are handed to the worker as the verification stage would",
            "PoolWorkerInterface thread wrapper and the service Task select loop are not used; the worker's own select loop is",
            "wall clock (simulated), std RandomState seeds (derived from the tape)",
        ]
    }
    fn default_runs(&self, _prop: &str, tier: Tier) -> u64 {
        match tier {
            Tier::Quick => 4000,
            Tier::Thorough => 150_000,
        }
    }
    fn nontrivial_min_ops(&self, _prop: &str) -> u64 {
        8
    }
    fn uses_global_clock(&self) -> bool {
        true
    }
    fn assumptions(&self, prop: &str) -> Vec<String> {
        let mut v = vec![
            "transactions reach the pool already verified (as from Verification::perform_all_verifications); utxo_validation is on".to_string(),
            "imported blocks are valid against the committed state (the importer party executes them on the harness chain model); the on-chain view is updated before the pool is notified, as the real importer does".to_string(),
            "at most one block per worker step and a block is the first update of its batch (expiry lists follow it, as Task::import_block sends them)".to_string(),
            "the model of pool membership is event sourced from the pool's own Submitted / squeezed-out notifications and cross-checked against the ids the pool holds after every step".to_string(),
        ];
        match prop {
            "C18" => v.push("'executable at the same time' is read as: all in-pool parents were handed out in the same wave of this extraction (generation); ordering across generations is reported as a statistic only".into()),
            "C19" => v.push("'does not exist' is judged generously: a coin exists if it is on chain, a coin output of a pooled transaction, or a live output of a handed-out / preconfirmed transaction; spending change/variable outputs of pooled transactions is not judged".into()),
            "C20" => v.push("'may be submitted again': the harness resubmits rolled-back transactions and only treats duplicate-id / already-spent rejections as violations, and only while all inputs are unspent on chain and not handed out with another transaction".into()),
            "C21" => v.push("a transaction that is itself named by a squeezed-out preconfirmation while pooled may be reported or not (the property lists only its dependents)".into()),
            _ => {}
        }
        v
    }

    fn run(&self, ctx: &mut Ctx) {
        let hash_seed = ctx.tape.choose(1 << 16);
        det::run_seeded(hash_seed, move || {
            simkit::clock::enable(parties::START_MS);
            let knobs = parties::draw_knobs(ctx, hash_seed);
            ctx.ev(format!("hash_seed={hash_seed} knobs={knobs:?}"));
            let mut seed = [0u8; 32];
            seed[..8].copy_from_slice(&hash_seed.to_le_bytes());
            let mut sim = world::new_sim(ctx, knobs, seed);
            sim.run_history();
        });
    }
}

fn main() {
    simkit::cli::main_world(&TxPoolWorld)
}
