//! The on-chain view the pool reads through `TxPoolPersistentStorage`: a small harness model of
//! the committed state (unspent coins, messages, contracts, blobs, committed tx ids) that the
//! simulated block importer updates, plus injected read errors.

use fuel_core_storage::{
    Mappable,
    PredicateStorageRequirements,
    Result as StorageResult,
    StorageInspect,
    StorageRead,
    StorageReadError,
    StorageSize,
    transactional::AtomicView,
};
use fuel_core_txpool::ports::TxPoolPersistentStorage;
use fuel_core_types::{
    entities::{
        coins::coin::CompressedCoin,
        relayer::message::{
            Message,
            MessageV1,
        },
    },
    fuel_tx::{
        Address,
        AssetId,
        BlobId,
        ContractId,
        TxId,
        UtxoId,
    },
    fuel_types::Nonce,
    fuel_vm::BlobData,
};
use std::{
    borrow::Cow,
    collections::{
        BTreeMap,
        BTreeSet,
    },
    sync::{
        Arc,
        Mutex,
    },
};

#[derive(Clone, Debug, PartialEq, Eq)]
pub struct CoinRec {
    pub owner: Address,
    pub amount: u64,
    pub asset: AssetId,
}

#[derive(Clone, Debug, PartialEq, Eq)]
pub struct MsgRec {
    pub sender: Address,
    pub recipient: Address,
    pub amount: u64,
    pub data: Vec<u8>,
}

#[derive(Default)]
pub struct ChainState {
    pub coins: BTreeMap<UtxoId, CoinRec>,
    /// coin -> committed tx that spent it
    pub spent_coins: BTreeMap<UtxoId, TxId>,
    pub messages: BTreeMap<Nonce, MsgRec>,
    pub spent_messages: BTreeMap<Nonce, TxId>,
    pub contracts: BTreeSet<ContractId>,
    pub blobs: BTreeSet<BlobId>,
    pub txs: BTreeSet<TxId>,
    pub height: u32,
    // ---- fault injection (set by the scheduler before a worker step) ----
    /// Fail the n-th (1-based) read of the step; 0 = off.
    pub fail_read_at: u64,
    /// Fail the n-th (1-based) `latest_view` of the step; 0 = off.
    pub fail_view_at: u64,
    pub reads: u64,
    pub views: u64,
    pub faults_fired: u64,
}

#[derive(Clone)]
pub struct SimDb(pub Arc<Mutex<ChainState>>);

impl SimDb {
    pub fn new() -> Self {
        SimDb(Arc::new(Mutex::new(ChainState::default())))
    }
    pub fn with<R>(&self, f: impl FnOnce(&mut ChainState) -> R) -> R {
        let mut g = self.0.lock().unwrap_or_else(|e| e.into_inner());
        f(&mut g)
    }
    /// Arms the faults for the next step and resets the per-step counters.
    pub fn arm(&self, fail_read_at: u64, fail_view_at: u64) {
        self.with(|c| {
            c.fail_read_at = fail_read_at;
            c.fail_view_at = fail_view_at;
            c.reads = 0;
            c.views = 0;
            c.faults_fired = 0;
        })
    }
    /// Disarms and returns how many injected errors were actually returned.
    pub fn disarm(&self) -> u64 {
        self.with(|c| {
            c.fail_read_at = 0;
            c.fail_view_at = 0;
            c.faults_fired
        })
    }
    fn read<R>(&self, f: impl FnOnce(&ChainState) -> R) -> StorageResult<R> {
        self.with(|c| {
            c.reads += 1;
            if c.fail_read_at != 0 && c.reads == c.fail_read_at {
                c.faults_fired += 1;
                return Err(fuel_core_storage::Error::DatabaseError(Box::new(
                    "injected read error",
                )));
            }
            Ok(f(c))
        })
    }
}

impl TxPoolPersistentStorage for SimDb {
    fn contains_tx(&self, tx_id: &TxId) -> StorageResult<bool> {
        self.read(|c| c.txs.contains(tx_id))
    }

    fn utxo(&self, utxo_id: &UtxoId) -> StorageResult<Option<CompressedCoin>> {
        self.read(|c| {
            c.coins.get(utxo_id).map(|r| {
                let mut coin = CompressedCoin::default();
                coin.set_owner(r.owner);
                coin.set_amount(r.amount);
                coin.set_asset_id(r.asset);
                coin
            })
        })
    }

    fn contract_exist(&self, contract_id: &ContractId) -> StorageResult<bool> {
        self.read(|c| c.contracts.contains(contract_id))
    }

    fn blob_exist(&self, blob_id: &BlobId) -> StorageResult<bool> {
        self.read(|c| c.blobs.contains(blob_id))
    }

    fn message(&self, nonce: &Nonce) -> StorageResult<Option<Message>> {
        self.read(|c| {
            c.messages.get(nonce).map(|m| {
                MessageV1 {
                    sender: m.sender,
                    recipient: m.recipient,
                    nonce: *nonce,
                    amount: m.amount,
                    data: m.data.clone(),
                    da_height: Default::default(),
                }
                .into()
            })
        })
    }
}

// Blob reads are only needed by predicate verification, which happens before the pool
// (in `Verification`, not part of this world). The pool itself never calls them.
impl StorageRead<BlobData> for SimDb {
    fn read_exact(
        &self,
        _key: &<BlobData as Mappable>::Key,
        _offset: usize,
        _buf: &mut [u8],
    ) -> Result<core::result::Result<usize, StorageReadError>, ()> {
        Ok(Err(StorageReadError::KeyNotFound))
    }

    fn read_zerofill(
        &self,
        _key: &<BlobData as Mappable>::Key,
        _offset: usize,
        _buf: &mut [u8],
    ) -> Result<core::result::Result<usize, StorageReadError>, ()> {
        Ok(Err(StorageReadError::KeyNotFound))
    }

    fn read_alloc(
        &self,
        _key: &<BlobData as Mappable>::Key,
    ) -> Result<Option<Vec<u8>>, Self::Error> {
        Ok(None)
    }
}

impl StorageInspect<BlobData> for SimDb {
    type Error = ();

    fn get(
        &self,
        _key: &<BlobData as Mappable>::Key,
    ) -> Result<Option<Cow<'_, <BlobData as Mappable>::OwnedValue>>, Self::Error> {
        Ok(None)
    }

    fn contains_key(
        &self,
        key: &<BlobData as Mappable>::Key,
    ) -> Result<bool, Self::Error> {
        Ok(self.with(|c| c.blobs.contains(key)))
    }
}

impl StorageSize<BlobData> for SimDb {
    fn size_of_value(
        &self,
        _key: &<BlobData as Mappable>::Key,
    ) -> Result<Option<usize>, Self::Error> {
        Ok(None)
    }
}

impl PredicateStorageRequirements for SimDb {
    fn storage_error_to_string(error: Self::Error) -> String {
        format!("{:?}", error)
    }
}

pub struct SimDbProvider(pub SimDb);

impl AtomicView for SimDbProvider {
    type LatestView = SimDb;

    fn latest_view(&self) -> StorageResult<Self::LatestView> {
        self.0.with(|c| {
            c.views += 1;
            if c.fail_view_at != 0 && c.views == c.fail_view_at {
                c.faults_fired += 1;
                return Err(fuel_core_storage::Error::DatabaseError(Box::new(
                    "injected view error",
                )));
            }
            Ok(())
        })?;
        Ok(self.0.clone())
    }
}
