//! Recording `TxStatusManager` port: keeps every call of the pool in order, and owns the
//! broadcast channel the pool worker listens on for preconfirmations.

use fuel_core_txpool::ports::TxStatusManager;
use fuel_core_types::{
    fuel_tx::TxId,
    services::transaction_status::{
        PreConfirmationStatus,
        TransactionStatus,
        statuses,
    },
};
use std::sync::Mutex;
use tokio::sync::broadcast;

#[derive(Debug, Clone)]
pub enum TsmEvent {
    /// `status_update(tx, Submitted)`: the pool admitted the transaction.
    Submitted(TxId),
    /// `status_update` with any other status (the pool never does that today).
    OtherStatus(TxId, String),
    /// One `squeezed_out_txs` call.
    Squeezed(Vec<(TxId, String)>),
}

pub struct RecordingTsm {
    events: Mutex<Vec<TsmEvent>>,
    preconf_sender: broadcast::Sender<(TxId, PreConfirmationStatus)>,
}

impl RecordingTsm {
    pub fn new(capacity: usize) -> Self {
        let (preconf_sender, _) = broadcast::channel(capacity);
        RecordingTsm {
            events: Mutex::new(Vec::new()),
            preconf_sender,
        }
    }
    pub fn take_events(&self) -> Vec<TsmEvent> {
        std::mem::take(&mut *self.events.lock().unwrap_or_else(|e| e.into_inner()))
    }
    pub fn publish_preconfirmation(&self, tx_id: TxId, status: PreConfirmationStatus) -> bool {
        self.preconf_sender.send((tx_id, status)).is_ok()
    }
    fn push(&self, e: TsmEvent) {
        self.events
            .lock()
            .unwrap_or_else(|e| e.into_inner())
            .push(e);
    }
}

impl TxStatusManager for RecordingTsm {
    fn status_update(&self, tx_id: TxId, tx_status: TransactionStatus) {
        match tx_status {
            TransactionStatus::Submitted(_) => self.push(TsmEvent::Submitted(tx_id)),
            other => self.push(TsmEvent::OtherStatus(tx_id, format!("{other:?}"))),
        }
    }

    fn preconfirmations_update_listener(
        &self,
    ) -> broadcast::Receiver<(TxId, PreConfirmationStatus)> {
        self.preconf_sender.subscribe()
    }

    fn squeezed_out_txs(&self, statuses: Vec<(TxId, statuses::SqueezedOut)>) {
        self.push(TsmEvent::Squeezed(
            statuses
                .into_iter()
                .map(|(id, s)| (id, format!("{s:?}")))
                .collect(),
        ));
    }
}
