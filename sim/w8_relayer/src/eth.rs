//! SimEth — the simulated DA (Ethereum) node.
//!
//! * `Chain`: the immutable log set per DA height (bridge messages, forced transactions, logs
//!   of other contracts, logs with other topics), with the reference list of fuel events per
//!   height built *independently* of the relayer's log decoder.
//! * `SimEth`: an `alloy_provider::Provider` whose three calls used by the relayer
//!   (`eth_getBlockByNumber(finalized)`, `eth_getLogs`, `eth_syncing`) are answered from the
//!   chain, with tape-chosen latency, failures, node limits and response shaping.

use crate::{
    Sh,
    Shared,
    lk,
    observe,
};
use alloy_json_rpc::{
    ErrorPayload,
    RpcError,
};
use alloy_primitives::{
    Address,
    B256,
    Bytes,
    FixedBytes,
    IntoLogData,
    LogData,
    U256,
};
use alloy_provider::{
    EthGetBlock,
    Provider,
    ProviderCall,
    RootProvider,
    network::Ethereum,
    transport::{
        TransportErrorKind,
        TransportResult,
    },
};
use alloy_rpc_client::NoParams;
use alloy_rpc_types_eth::{
    Block,
    BlockId,
    BlockNumberOrTag,
    Filter,
    Log,
    SyncInfo,
    SyncStatus,
};
use fuel_core_relayer::bridge::{
    MessageSent,
    Transaction,
};
use fuel_core_types::{
    entities::{
        RelayedTransaction,
        relayer::{
            message::{
                Message,
                MessageV1,
            },
            transaction::RelayedTransactionV1,
        },
    },
    fuel_types::{
        Address as FuelAddress,
        Nonce,
    },
    services::relayer::Event,
};
use simkit::Ctx;
use std::{
    collections::BTreeMap,
    sync::Arc,
    time::Duration,
};

pub struct SimLog {
    pub log: Log,
    /// from one of the listening contracts
    pub listening: bool,
    /// MessageSent or Transaction topic
    pub fuel_topic: bool,
    pub index: u64,
}

pub struct Chain {
    pub contracts: Vec<Address>,
    /// first height that has a block in this chain model (heights below carry no logs)
    pub first: u64,
    pub last: u64,
    pub blocks: BTreeMap<u64, Vec<SimLog>>,
    /// reference: the fuel events of each height in log-index order
    pub expected: BTreeMap<u64, Vec<Event>>,
    pub salt: u64,
    pub max_logs_in_one_height: u64,
}

fn mix(a: u64, b: u64, c: u64) -> u64 {
    let mut x = a ^ b.wrapping_mul(0x9E3779B97F4A7C15) ^ c.wrapping_mul(0xD6E8FEB86659FD93);
    x = (x ^ (x >> 30)).wrapping_mul(0xBF58476D1CE4E5B9);
    x = (x ^ (x >> 27)).wrapping_mul(0x94D049BB133111EB);
    x ^ (x >> 31)
}

fn bytes_from(seed: u64, len: usize) -> Vec<u8> {
    (0..len)
        .map(|i| (mix(seed, i as u64, 0x51) & 0xff) as u8)
        .collect()
}

fn b32(seed: u64) -> [u8; 32] {
    let v = bytes_from(seed, 32);
    let mut a = [0u8; 32];
    a.copy_from_slice(&v);
    a
}

fn mk_log(address: Address, data: LogData, height: u64, index: u64) -> Log {
    Log {
        inner: alloy_primitives::Log { address, data },
        block_hash: Some(B256::from(b32(height ^ 0xb10c))),
        block_number: Some(height),
        block_timestamp: None,
        transaction_hash: Some(B256::from(b32(mix(height, index, 7)))),
        transaction_index: Some(index / 2),
        log_index: Some(index),
        removed: false,
    }
}

const DATA_LENS: [usize; 8] = [0, 1, 31, 32, 33, 64, 5, 100];

/// A bridge message log and the event the relayer has to store for it (built from the same
/// field values, not through the relayer's decoder).
pub fn message_log(address: Address, height: u64, index: u64, seed: u64) -> (Log, Event) {
    let sender = b32(mix(seed, 1, 0));
    let recipient = b32(mix(seed, 2, 0));
    let nonce = b32(mix(seed, 3, 0));
    let amount = match seed % 5 {
        0 => 0,
        1 => u64::MAX,
        _ => mix(seed, 4, 0),
    };
    let data = bytes_from(mix(seed, 5, 0), DATA_LENS[(seed >> 8) as usize % DATA_LENS.len()]);
    let ev = MessageSent {
        sender: FixedBytes::<32>::from(sender),
        recipient: FixedBytes::<32>::from(recipient),
        nonce: U256::from_be_bytes(nonce),
        amount,
        data: Bytes::from(data.clone()),
    };
    let expected = Event::Message(Message::from(MessageV1 {
        sender: FuelAddress::from(sender),
        recipient: FuelAddress::from(recipient),
        nonce: Nonce::new(nonce),
        amount,
        data,
        da_height: height.into(),
    }));
    (mk_log(address, ev.to_log_data(), height, index), expected)
}

pub fn transaction_log(address: Address, height: u64, index: u64, seed: u64) -> (Log, Event) {
    let nonce = b32(mix(seed, 3, 1));
    let max_gas = match seed % 4 {
        0 => 0,
        1 => u64::MAX,
        _ => mix(seed, 4, 1) >> 20,
    };
    let tx = bytes_from(mix(seed, 5, 1), DATA_LENS[(seed >> 8) as usize % DATA_LENS.len()]);
    let ev = Transaction {
        nonce: U256::from_be_bytes(nonce),
        max_gas,
        canonically_serialized_tx: Bytes::from(tx.clone()),
    };
    let expected = Event::Transaction(RelayedTransaction::from(RelayedTransactionV1 {
        nonce: Nonce::new(nonce),
        max_gas,
        serialized_transaction: tx,
        da_height: height.into(),
    }));
    (mk_log(address, ev.to_log_data(), height, index), expected)
}

fn other_topic_log(address: Address, height: u64, index: u64, seed: u64) -> Log {
    let topics = vec![B256::from(b32(mix(seed, 9, 9))), B256::from(b32(mix(seed, 9, 8)))];
    let data = LogData::new_unchecked(topics, Bytes::from(bytes_from(seed, 40)));
    mk_log(address, data, height, index)
}

pub struct ChainKnobs {
    pub first: u64,
    pub n_heights: u64,
    /// 0 sparse, 1 mixed, 2 dense
    pub density: u64,
    pub burst_max: u64,
    pub n_contracts: usize,
}

pub fn generate_chain(ctx: &mut Ctx, k: &ChainKnobs) -> Chain {
    let salt = ctx.tape.choose(1 << 32);
    let contracts: Vec<Address> = (0..k.n_contracts)
        .map(|i| Address::from_slice(&bytes_from(mix(salt, i as u64, 0xc0), 20)))
        .collect();
    let foreign = Address::from_slice(&bytes_from(mix(salt, 99, 0xc0), 20));
    let mut blocks = BTreeMap::new();
    let mut expected = BTreeMap::new();
    let last = k.first + k.n_heights;
    let mut max_in_one = 0u64;
    let weights: [u64; 5] = match k.density {
        0 => [70, 20, 7, 2, 1],
        1 => [40, 25, 20, 10, 5],
        _ => [10, 25, 35, 20, 10],
    };
    for h in k.first..=last {
        // Ethereum's genesis block carries no logs.
        let n = if h == 0 {
            0
        } else {
            match ctx.tape.weighted(&weights) {
                0 => 0,
                1 => 1,
                2 => 2 + ctx.tape.choose(2),
                3 => 4 + ctx.tape.choose(2),
                _ => 6 + ctx.tape.choose(k.burst_max.saturating_sub(5).max(1)),
            }
        };
        let mut logs = Vec::new();
        let mut evs = Vec::new();
        let mut index = ctx.tape.choose(3);
        for j in 0..n {
            let seed = mix(salt, h, j);
            let addr = contracts[(seed >> 16) as usize % contracts.len()];
            // message, transaction, foreign contract with a fuel topic, listening contract with
            // another topic
            match ctx.tape.weighted(&[9, 7, 2, 2]) {
                0 => {
                    let (log, ev) = message_log(addr, h, index, seed);
                    logs.push(SimLog { log, listening: true, fuel_topic: true, index });
                    evs.push(ev);
                }
                1 => {
                    let (log, ev) = transaction_log(addr, h, index, seed);
                    logs.push(SimLog { log, listening: true, fuel_topic: true, index });
                    evs.push(ev);
                }
                2 => {
                    let (log, _) = if seed & 1 == 0 {
                        message_log(foreign, h, index, seed)
                    } else {
                        transaction_log(foreign, h, index, seed)
                    };
                    logs.push(SimLog { log, listening: false, fuel_topic: true, index });
                }
                _ => {
                    let log = other_topic_log(addr, h, index, seed);
                    logs.push(SimLog { log, listening: true, fuel_topic: false, index });
                }
            }
            index += 1 + ctx.tape.choose(3);
        }
        max_in_one = max_in_one.max(logs.iter().filter(|l| l.listening).count() as u64);
        blocks.insert(h, logs);
        expected.insert(h, evs);
    }
    Chain {
        contracts,
        first: k.first,
        last,
        blocks,
        expected,
        salt,
        max_logs_in_one_height: max_in_one,
    }
}

/// Mutable state of the simulated node.
pub struct EthNode {
    pub finalized: u64,
    /// highest finalized height ever returned to the relayer
    pub max_reported: Option<u64>,
    pub syncing_polls_left: u64,
    pub down: bool,
    pub calls: u64,
    pub logs_ok: u64,
    /// length of the previous successful / failed get_logs request of this service life
    pub prev_req: Option<(u64, u64, bool)>,
    /// `Some(n)`: the n-th next RPC never answers and the driver is notified
    pub halt_in: Option<u64>,
    pub halted: bool,
    pub notify: Arc<tokio::sync::Notify>,
    pub storm: bool,
    pub call_cap: u64,
    pub quiet: bool,
    /// RPC calls since the driver's current step began (the driver resets it)
    pub step_calls: u64,
    /// (virtual instant, was a successful finalized-block answer) of the last answered call
    pub last_answer: Option<(tokio::time::Instant, bool)>,
}

impl EthNode {
    pub fn new(finalized: u64, call_cap: u64) -> Self {
        EthNode {
            finalized,
            max_reported: None,
            syncing_polls_left: 0,
            down: false,
            calls: 0,
            logs_ok: 0,
            prev_req: None,
            halt_in: None,
            halted: false,
            notify: Arc::new(tokio::sync::Notify::new()),
            storm: false,
            call_cap,
            quiet: false,
            step_calls: 0,
            last_answer: None,
        }
    }
}

#[derive(Clone)]
pub struct SimEth {
    pub sh: Shared,
}

/// zero-latency RPC calls allowed within one driver step
const BURST: u64 = 64;

enum RpcFault {
    None,
    Transport,
    ErrorResp,
    NullResp,
}

fn err_resp<T>(code: i64, msg: String) -> TransportResult<T> {
    Err(RpcError::ErrorResp(ErrorPayload {
        code,
        message: msg.into(),
        data: None,
    }))
}

impl SimEth {
    /// Common prelude of every RPC: account, observe the relayer (it is suspended in this call),
    /// possibly hang forever (crash / stop point), then the virtual network latency.
    async fn enter(&self, what: &str) -> u64 {
        let (id, lat, halted, notify, throttle) = {
            let mut s = lk(&self.sh);
            s.eth.calls += 1;
            s.eth.step_calls += 1;
            let id = s.eth.calls;
            s.ctx.ev(format!("rpc#{id} {what}"));
            observe(&mut s, false);
            // The relayer polls again at the very instant it learnt that there is nothing to
            // sync: its loop is not throttled (not part of C29; reported as a statistic).
            if what == "syncing" {
                if let Some((at, true)) = s.eth.last_answer {
                    if at == tokio::time::Instant::now() {
                        s.ctx.probe("unthrottled-poll-after-nothing-to-sync");
                    }
                }
            }
            if !s.eth.halted {
                if let Some(n) = s.eth.halt_in {
                    if n == 0 {
                        s.eth.halted = true;
                        s.eth.halt_in = None;
                        s.ctx.ev(format!("rpc#{id} never answers (halt point)"));
                    } else {
                        s.eth.halt_in = Some(n - 1);
                    }
                }
            }
            if s.eth.calls > s.eth.call_cap {
                s.eth.storm = true;
            }
            let lat = if s.eth.quiet || s.k.lat_max_ms == 0 {
                0
            } else {
                // 0 (a bare yield) is the most likely latency
                match s.ctx.tape.choose(4) {
                    0 | 1 => 0,
                    2 => s.ctx.tape.choose(3),
                    _ => {
                        let m = s.k.lat_max_ms;
                        s.ctx.tape.choose(m + 1)
                    }
                }
            };
            // No network is infinitely fast: after a burst of calls within one driver step every
            // further call takes one poll period, so that simulated time always advances.
            let throttle = if s.eth.step_calls > BURST || s.eth.storm {
                s.ctx.probe("rpc-burst-throttled");
                s.k.min_dur_ms.max(1)
            } else {
                0
            };
            (id, lat, s.eth.halted, s.eth.notify.clone(), throttle)
        };
        if halted {
            notify.notify_one();
            std::future::pending::<()>().await;
        }
        if lat + throttle == 0 {
            tokio::task::yield_now().await;
        } else {
            tokio::time::sleep(Duration::from_millis(lat + throttle)).await;
        }
        id
    }

    fn draw_fault(s: &mut Sh) -> RpcFault {
        if !s.faults_on {
            return RpcFault::None;
        }
        if s.eth.down {
            s.ctx.fault("rpc-node-down");
            return RpcFault::Transport;
        }
        let (rt, rr) = (s.k.r_rpc_transport, s.k.r_rpc_resp);
        if rt > 0 && s.ctx.tape.chance(rt, 100) {
            s.ctx.fault("rpc-transport-error");
            return RpcFault::Transport;
        }
        if rr > 0 && s.ctx.tape.chance(rr, 100) {
            if s.ctx.tape.choose(4) == 3 {
                s.ctx.fault("rpc-null-response");
                return RpcFault::NullResp;
            }
            s.ctx.fault("rpc-error-response");
            return RpcFault::ErrorResp;
        }
        RpcFault::None
    }

    fn fault_result<T>(f: RpcFault) -> Option<TransportResult<T>> {
        match f {
            RpcFault::None => None,
            RpcFault::Transport => {
                Some(Err(TransportErrorKind::custom_str("injected: connection reset")))
            }
            RpcFault::ErrorResp => Some(err_resp(-32000, "injected: internal error".into())),
            RpcFault::NullResp => Some(Err(RpcError::NullResp)),
        }
    }

    async fn do_get_block(&self, block: BlockId) -> TransportResult<Option<Block>> {
        let id = self.enter(&format!("get_block {block:?}")).await;
        let mut s = lk(&self.sh);
        s.eth.last_answer = Some((tokio::time::Instant::now(), false));
        if let Some(r) = Self::fault_result(Self::draw_fault(&mut s)) {
            s.ctx.ev(format!("rpc#{id} -> error"));
            return r;
        }
        if block != BlockId::Number(BlockNumberOrTag::Finalized) {
            s.ctx.ev(format!("rpc#{id} -> unsupported block id"));
            return err_resp(-32602, "SimEth only serves the finalized block".into());
        }
        if s.faults_on && s.k.r_pending > 0 {
            let r = s.k.r_pending;
            if s.ctx.tape.chance(r, 100) {
                s.ctx.fault("rpc-finalized-block-null");
                s.ctx.ev(format!("rpc#{id} -> null block"));
                return Ok(None);
            }
        }
        let n = s.eth.finalized;
        s.eth.max_reported = Some(s.eth.max_reported.map_or(n, |m| m.max(n)));
        s.ctx.ev(format!("rpc#{id} -> finalized {n}"));
        s.eth.last_answer = Some((tokio::time::Instant::now(), true));
        let mut b: Block = Block::default();
        b.header.inner.number = n;
        b.header.hash = B256::from(b32(n ^ 0xb10c));
        Ok(Some(b))
    }

    async fn do_syncing(&self) -> TransportResult<SyncStatus> {
        let id = self.enter("syncing").await;
        let mut s = lk(&self.sh);
        s.eth.last_answer = Some((tokio::time::Instant::now(), false));
        if let Some(r) = Self::fault_result(Self::draw_fault(&mut s)) {
            s.ctx.ev(format!("rpc#{id} -> error"));
            return r;
        }
        if s.eth.syncing_polls_left > 0 {
            s.eth.syncing_polls_left -= 1;
            s.ctx.probe("da-node-syncing-wait");
            s.ctx.ev(format!("rpc#{id} -> syncing"));
            let fin = s.eth.finalized;
            return Ok(SyncStatus::Info(Box::new(SyncInfo {
                starting_block: U256::from(0u64),
                current_block: U256::from(fin),
                highest_block: U256::from(fin.saturating_add(100)),
                ..Default::default()
            })));
        }
        s.ctx.ev(format!("rpc#{id} -> not syncing"));
        Ok(SyncStatus::None)
    }

    async fn do_get_logs(&self, filter: &Filter) -> TransportResult<Vec<Log>> {
        let (from, to) = (filter.get_from_block(), filter.get_to_block());
        let id = self.enter(&format!("get_logs {from:?}..={to:?}")).await;
        let mut guard = lk(&self.sh);
        let s = &mut *guard;
        s.eth.last_answer = Some((tokio::time::Instant::now(), false));
        let (Some(from), Some(to)) = (from, to) else {
            s.ctx.ev(format!("rpc#{id} -> invalid params"));
            return err_resp(-32602, "from/to block required".into());
        };
        if to < from {
            s.ctx.ev(format!("rpc#{id} -> invalid range"));
            return err_resp(-32602, "invalid block range".into());
        }
        let len = to - from + 1;
        // page-size probes: compare with the previous request of this service life
        if let Some((pfrom, plen, pok)) = s.eth.prev_req {
            if len < plen && (!pok || from > pfrom) && to < s.eth.finalized {
                s.ctx.probe(if pok { "page-shrunk-after-success" } else { "page-shrunk-after-error" });
            }
            if len > plen && pok && from == pfrom + plen && s.eth.logs_ok >= 50 {
                s.ctx.probe("page-grown");
            }
            if !pok && from == pfrom {
                s.ctx.probe("page-retried-after-error");
            }
        }
        if len > 1 {
            s.ctx.probe("multi-height-page");
        }
        let fault = Self::draw_fault(s);
        if let Some(r) = Self::fault_result(fault) {
            s.eth.prev_req = Some((from, len, false));
            s.ctx.ev(format!("rpc#{id} -> error"));
            return r;
        }
        if let Some(cap) = s.k.cap_range {
            if len > cap {
                s.ctx.fault("rpc-block-range-too-large");
                s.eth.prev_req = Some((from, len, false));
                s.ctx.ev(format!("rpc#{id} -> block range too large ({len} > {cap})"));
                return err_resp(-32005, format!("block range too large, max {cap}"));
            }
        }
        let final_upto = s.eth.max_reported;
        let mut out: Vec<Log> = Vec::new();
        let mut tentative = false;
        for (h, logs) in s.chain.blocks.range(from..=to) {
            for l in logs {
                if !filter.matches_address(l.log.address()) {
                    continue;
                }
                let topic_ok = filter.matches_topics(l.log.topics());
                if topic_ok || (s.k.sloppy_topics && l.listening) {
                    if !topic_ok {
                        s.ctx.probe("non-fuel-topic-log-served");
                    }
                    out.push(l.log.clone());
                }
            }
            // Blocks above the finalized height can still be reorganised: what the node serves
            // for them is not what will be final.
            if final_upto.map_or(true, |f| *h > f) {
                tentative = true;
                let idx = logs.last().map_or(0, |l| l.index + 1);
                let (phantom, _) =
                    message_log(s.chain.contracts[0], *h, idx, mix(s.chain.salt, *h, 0xdead));
                out.push(phantom);
            }
        }
        if tentative {
            s.ctx.probe("unfinalized-heights-requested");
        }
        if let Some(cap) = s.k.cap_results {
            if out.len() as u64 > cap {
                s.ctx.fault("rpc-too-many-results");
                s.eth.prev_req = Some((from, len, false));
                s.ctx.ev(format!("rpc#{id} -> too many results ({} > {cap})", out.len()));
                return err_resp(-32005, format!("query returned more than {cap} results"));
            }
        }
        if out.is_empty() {
            s.ctx.probe("empty-page");
        }
        if out.len() as u64 > s.k.max_logs {
            s.ctx.probe("more-logs-than-max_logs_per_rpc");
        }
        if s.k.shuffle && out.len() > 1 {
            s.ctx.tape.shuffle(&mut out);
        }
        s.eth.prev_req = Some((from, len, true));
        s.eth.logs_ok += 1;
        s.ctx.ev(format!("rpc#{id} -> {} logs", out.len()));
        Ok(out)
    }
}

#[async_trait::async_trait]
impl Provider for SimEth {
    fn root(&self) -> &RootProvider<Ethereum> {
        unreachable!("SimEth has no transport; the relayer only uses get_block/get_logs/syncing")
    }

    fn get_block(&self, block: BlockId) -> EthGetBlock<Block> {
        let this = self.clone();
        EthGetBlock::new_provider(
            block,
            Box::new(move |_kind| {
                let this = this.clone();
                ProviderCall::BoxedFuture(Box::pin(
                    async move { this.do_get_block(block).await },
                ))
            }),
        )
    }

    async fn get_logs(&self, filter: &Filter) -> TransportResult<Vec<Log>> {
        self.do_get_logs(filter).await
    }

    fn syncing(&self) -> ProviderCall<NoParams, SyncStatus> {
        let this = self.clone();
        ProviderCall::BoxedFuture(Box::pin(async move { this.do_syncing().await }))
    }
}
