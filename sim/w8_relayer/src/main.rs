//! W8 relayer — the real relayer service (`fuel_core_relayer` run loop, log pagination with the
//! adaptive page sizer, `write_logs`, `RelayerDb::insert_events`) on the real
//! `Database<Relayer>` (height bookkeeping + metadata) over the real `MemoryStore`, driven on a
//! paused current-thread tokio runtime against **SimEth**, a simulated DA node, with a
//! fault-injecting store wrapper, graceful restarts and crashes (the runtime is dropped, only the
//! store survives). Property: C29.

mod eth;
mod store;

use eth::{
    Chain,
    ChainKnobs,
    EthNode,
    SimEth,
};
#[cfg(feature = "prod")]
use fuel_core::{
    database::{
        Database,
        database_description::relayer::Relayer,
    },
    state::in_memory::memory_store::MemoryStore,
};
#[cfg(feature = "prod")]
use fuel_core_relayer::ports::RelayerDb;
use fuel_core_relayer::{
    Config,
    SharedState,
    storage::EventsHistory,
};
use fuel_core_services::{
    Service,
    State,
};
use fuel_core_storage::{
    StorageAsRef,
    structured_storage::StructuredStorage,
};
#[cfg(feature = "prod")]
use fuel_core_storage::{
    iter::{
        IterDirection,
        IteratorOverTable,
    },
    transactional::HistoricalView,
};
use fuel_core_types::{
    blockchain::primitives::DaBlockHeight,
    services::relayer::Event,
};
use simkit::{
    Ctx,
    Tape,
    Tier,
    World,
};
use std::{
    sync::{
        Arc,
        Mutex,
        MutexGuard,
    },
    time::Duration,
};
#[cfg(feature = "prod")]
use store::{
    FaultyStore,
    highest_history_key,
};
use store::{
    MemKv,
    PlainDb,
    PortDb,
    StoreAcct,
};

const P: &str = "C29";

pub struct Knobs {
    pub deploy: u64,
    pub page: u64,
    pub max_logs: u64,
    pub min_dur_ms: u64,
    pub sync_freq_ms: u64,
    pub retry: bool,
    pub steps: u64,
    pub growth_profile: bool,
    // rpc
    pub r_rpc_transport: u64,
    pub r_rpc_resp: u64,
    pub r_pending: u64,
    pub cap_range: Option<u64>,
    pub cap_results: Option<u64>,
    pub lat_max_ms: u64,
    pub shuffle: bool,
    pub sloppy_topics: bool,
    pub outage: bool,
    pub regress: bool,
    // storage
    pub r_commit_fail: u64,
    pub r_lost_ack: u64,
    pub r_read_err: u64,
    /// false: production stack (Database<Relayer>), true: port stack (PlainDb)
    pub plain_storage: bool,
    // restarts
    pub w_restart: u64,
}

/// The storage height as the service's `RelayerDb::get_finalized_da_height` reports it.
pub enum LiveDb {
    /// a clone of the service's database handle (shares the in-memory height with the service)
    #[cfg(feature = "prod")]
    Prod(Database<Relayer>),
    /// port stack: the highest `EventsHistory` key of the store (tracked by the write counter)
    Plain,
}

/// Un-faulted view of the surviving store, used to read the `EventsHistory` table for the oracle
/// (through the real table codec).
pub enum RawView {
    #[cfg(feature = "prod")]
    Prod(Database<Relayer>),
    Plain(Arc<MemKv>),
}

impl RawView {
    fn events(&self, h: u64) -> Result<Option<Vec<Event>>, String> {
        let key = DaBlockHeight(h);
        match self {
            #[cfg(feature = "prod")]
            RawView::Prod(db) => db
                .storage::<EventsHistory>()
                .get(&key)
                .map(|v| v.map(|c| c.into_owned()))
                .map_err(|e| format!("{e:?}")),
            RawView::Plain(kv) => StructuredStorage::new(&**kv)
                .storage::<EventsHistory>()
                .get(&key)
                .map(|v| v.map(|c| c.into_owned()))
                .map_err(|e| format!("{e:?}")),
        }
    }
}

/// The store that survives restarts ("disk").
pub enum Disk {
    #[cfg(feature = "prod")]
    Prod {
        mem: Arc<MemoryStore<Relayer>>,
        faulty: Arc<FaultyStore>,
    },
    Plain(Arc<MemKv>),
}

pub struct Observer {
    pub db: LiveDb,
    pub raw: RawView,
    pub shared: SharedState,
}

#[derive(Default)]
pub struct Monitor {
    pub first: u64,
    pub last_db: Option<u64>,
    pub last_shared: Option<u64>,
    pub verified_upto: Option<u64>,
}

/// Everything the simulated parties share. The run's `Ctx` lives in here while the world runs
/// (the provider and the store are `Send + Sync + 'static` objects owned by the service).
pub struct Sh {
    pub ctx: Ctx,
    pub k: Knobs,
    pub chain: Chain,
    pub eth: EthNode,
    pub faults_on: bool,
    pub store: StoreAcct,
    pub obs: Option<Observer>,
    pub mon: Monitor,
}

pub type Shared = Arc<Mutex<Sh>>;

pub fn lk(sh: &Shared) -> MutexGuard<'_, Sh> {
    sh.lock().unwrap_or_else(|e| e.into_inner())
}

fn short(e: &Event) -> String {
    let h = e.hash();
    let kind = match e {
        Event::Message(_) => "msg",
        Event::Transaction(_) => "tx",
    };
    format!("{kind}:{:02x}{:02x}{:02x}", h[0], h[1], h[2])
}

/// The oracle's observation point: synced heights are monotone, the published synced height is
/// covered by the storage, and every newly covered DA height stores exactly the reference events.
/// Called while the relayer is suspended (inside an RPC of SimEth, or between driver steps).
pub fn observe(s: &mut Sh, full: bool) {
    let Sh {
        ctx,
        obs,
        mon,
        chain,
        k,
        store,
        ..
    } = s;
    let Some(o) = obs.as_ref() else { return };
    let db_h: Option<u64> = match &o.db {
        #[cfg(feature = "prod")]
        LiveDb::Prod(db) => db.get_finalized_da_height().map(Into::into),
        LiveDb::Plain => store.writes.keys().next_back().copied(),
    };
    let sh_h: u64 = o.shared.get_finalized_da_height().into();
    if db_h != mon.last_db || Some(sh_h) != mon.last_shared {
        ctx.ev(format!("observe storage_height={db_h:?} synced_height={sh_h}"));
    }
    let (last_db, last_shared) = (mon.last_db, mon.last_shared);
    ctx.check(P, "storage-height-decreased", db_h >= last_db, || {
        format!("RelayerDb::get_finalized_da_height went from {last_db:?} to {db_h:?}")
    });
    ctx.check(P, "synced-height-decreased", Some(sh_h) >= last_shared, || {
        format!("SharedState::get_finalized_da_height went from {last_shared:?} to {sh_h}")
    });
    let covered = match db_h {
        Some(d) => sh_h <= d,
        None => sh_h <= k.deploy.saturating_sub(1),
    };
    ctx.check(P, "synced-height-ahead-of-storage", covered, || {
        format!(
            "the published synced height {sh_h} is above the storage height {db_h:?} (deploy height {})",
            k.deploy
        )
    });
    mon.last_db = db_h;
    mon.last_shared = Some(sh_h);

    let Some(top) = db_h else { return };
    let from = if full {
        mon.first
    } else {
        mon.verified_upto.map_or(mon.first, |v| v + 1)
    };
    let mut h = from;
    while h <= top {
        let stored: Result<Option<Vec<Event>>, String> = o.raw.events(h);
        let expected: &[Event] = chain.expected.get(&h).map(|v| v.as_slice()).unwrap_or(&[]);
        match stored {
            Err(e) => {
                ctx.violate(P, "stored-events-unreadable", format!("EventsHistory[{h}]: {e}"));
            }
            Ok(None) => {
                ctx.violate(
                    P,
                    "height-missing",
                    format!(
                        "storage height is {top} but EventsHistory has no entry for DA height {h} (first expected height {})",
                        mon.first
                    ),
                );
            }
            Ok(Some(got)) => {
                if got.as_slice() != expected {
                    let mut a: Vec<String> = got.iter().map(short).collect();
                    let mut b: Vec<String> = expected.iter().map(short).collect();
                    let detail = format!(
                        "EventsHistory[{h}] = [{}] but the DA node has [{}] (log-index order)",
                        a.join(","),
                        b.join(",")
                    );
                    a.sort();
                    b.sort();
                    let class = if a == b {
                        "events-misordered"
                    } else {
                        "events-mismatch"
                    };
                    ctx.violate(P, class, detail);
                } else {
                    // counts as an oracle evaluation
                    ctx.check(P, "events-mismatch", true, String::new);
                    if !got.is_empty() {
                        ctx.probe_n("heights-with-events-verified", 1);
                    }
                }
            }
        }
        if ctx.failed() {
            return;
        }
        if h == u64::MAX {
            break;
        }
        h += 1;
    }
    mon.verified_upto = Some(mon.verified_upto.map_or(top, |v| v.max(top)));
}

fn draw_knobs(ctx: &mut Ctx) -> (Knobs, ChainKnobs, u64) {
    let thorough = ctx.tier == Tier::Thorough;
    let fault_free = ctx.tape.choose(8) == 0;
    let growth_profile = ctx.tape.choose(6) == 5;
    let deploy = match ctx.tape.choose(6) {
        0 => 1,
        1 => 0,
        2 => 2 + ctx.tape.choose(20),
        3 => 1000 + ctx.tape.choose(1000),
        4 => (1u64 << 32) - 3 + ctx.tape.choose(6),
        _ => (1u64 << 53) + ctx.tape.choose(1000),
    };
    let n_heights = if growth_profile {
        120 + ctx.tape.choose(if thorough { 500 } else { 200 })
    } else {
        match ctx.tape.choose(4) {
            0 => 3 + ctx.tape.choose(10),
            1 | 2 => 10 + ctx.tape.choose(50),
            _ => 40 + ctx.tape.choose(if thorough { 200 } else { 80 }),
        }
    };
    let density = ctx.tape.choose(3);
    let burst_max = *ctx.tape.pick(&[6u64, 8, 12, 20]);
    let n_contracts = 1 + ctx.tape.below(2);
    let page = if growth_profile {
        *ctx.tape.pick(&[4u64, 2, 3, 5, 8])
    } else {
        *ctx.tape.pick(&[5u64, 1, 2, 3, 4, 7, 8, 16, 32, 64, 10_000])
    };
    let max_logs = *ctx.tape.pick(&[10_000u64, 1, 2, 3, 5, 8, 20]);
    let min_dur_ms = *ctx.tape.pick(&[10u64, 1, 100, 5000]);
    let sync_freq_ms = *ctx.tape.pick(&[10u64, 1, 100, 5000]);
    // 0 => production configuration (retry on error)
    let retry = ctx.tape.choose(4) != 3;
    let steps = if growth_profile {
        20 + ctx.tape.choose(30)
    } else {
        8 + ctx.tape.choose(if thorough { 80 } else { 40 })
    };
    let rate = |ctx: &mut Ctx, on: bool, low: bool| -> u64 {
        if !on || fault_free {
            return 0;
        }
        if low {
            *ctx.tape.pick(&[0u64, 0, 1, 2])
        } else {
            *ctx.tape.pick(&[0u64, 0, 2, 5, 10, 25])
        }
    };
    // swarm: each fault kind is enabled in about half of the runs
    let en: Vec<bool> = (0..10).map(|_| ctx.tape.coin()).collect();
    let r_rpc_transport = rate(ctx, en[0], growth_profile);
    let r_rpc_resp = rate(ctx, en[1], growth_profile);
    let r_pending = rate(ctx, en[2], growth_profile);
    let r_commit_fail = rate(ctx, en[3], growth_profile);
    let r_lost_ack = rate(ctx, en[4], growth_profile);
    let r_read_err = rate(ctx, en[5], growth_profile);
    // node limits are properties of the node, they stay in force in the liveness phase; without
    // retry (test configuration) the page sizer is reset by every error, so they are not used.
    let cap_range = if en[6] && !fault_free && retry {
        Some(*ctx.tape.pick(&[1u64, 2, 3, 5, 10]))
    } else {
        None
    };
    let cap_results_raw = if en[7] && !fault_free && retry {
        Some(*ctx.tape.pick(&[1u64, 2, 4, 8, 20]))
    } else {
        None
    };
    let lat_max_ms = *ctx.tape.pick(&[0u64, 0, 5, 50, 2000]);
    let shuffle = ctx.tape.coin();
    let sloppy_topics = ctx.tape.choose(4) == 3;
    let outage = en[8] && !fault_free && !growth_profile;
    let regress = en[9] && !fault_free;
    // 0 => the production storage stack
    let plain_storage = ctx.tape.choose(3) == 2 || !cfg!(feature = "prod");
    let w_restart = if growth_profile {
        *ctx.tape.pick(&[0u64, 0, 1])
    } else {
        *ctx.tape.pick(&[0u64, 1, 2, 4])
    };
    let k = Knobs {
        deploy,
        page,
        max_logs,
        min_dur_ms,
        sync_freq_ms,
        retry,
        steps,
        growth_profile,
        r_rpc_transport,
        r_rpc_resp,
        r_pending,
        cap_range,
        cap_results: cap_results_raw,
        lat_max_ms,
        shuffle,
        sloppy_topics,
        outage,
        regress,
        r_commit_fail,
        r_lost_ack,
        r_read_err,
        plain_storage,
        w_restart,
    };
    let ck = ChainKnobs {
        first: deploy.saturating_sub(2),
        n_heights: n_heights + 2,
        density,
        burst_max,
        n_contracts,
    };
    (k, ck, if fault_free { 1 } else { 0 })
}

struct Driver {
    steps_left: u64,
    final_phase: bool,
    /// the monotone finalized height of the chain (what the node reports unless it regresses)
    true_finalized: u64,
    incarnation: u64,
}

enum Next {
    Restart,
    Finish,
}

enum Halt {
    Crash,
    Graceful,
}

fn build_rt() -> tokio::runtime::Runtime {
    tokio::runtime::Builder::new_current_thread()
        .enable_time()
        .start_paused(true)
        .rng_seed(tokio::runtime::RngSeed::from_bytes(b"w8_relayer"))
        .build()
        .expect("tokio runtime")
}

fn log2ceil(x: u64) -> u64 {
    64 - x.max(1).leading_zeros() as u64
}

async fn incarnation(sh: &Shared, disk: &Disk, cfg: &Config, d: &mut Driver) -> Next {
    d.incarnation += 1;
    // The metrics registry is process-global, grows with every ServiceRunner::new and is encoded
    // as a whole on every registration: clear it (harness hygiene; metrics are not observed).
    *fuel_core_metrics::global_registry().registry.lock() = Default::default();
    let retry = lk(sh).k.retry;
    let eth = SimEth { sh: sh.clone() };
    let announce = |h: Option<u64>, stack: &str| {
        let mut s = lk(sh);
        let n = d.incarnation;
        s.ctx.scope(P);
        s.ctx.op(format!(
            "start relayer service #{n} (storage height {h:?}, retry_on_error={retry}, {stack})"
        ));
        s.eth.prev_req = None;
        s.eth.logs_ok = 0;
        s.eth.halted = false;
        s.eth.halt_in = None;
        s.eth.notify = Arc::new(tokio::sync::Notify::new());
    };
    // ---- open the database (what a node start does) and build the service ----
    match disk {
        #[cfg(feature = "prod")]
        Disk::Prod { mem, faulty } => {
            lk(sh).store.suspended = true;
            let raw = RawView::Prod(Database::<Relayer>::new(mem.clone()));
            let db = Database::<Relayer>::new(faulty.clone());
            lk(sh).store.suspended = false;
            announce(
                db.get_finalized_da_height().map(Into::into),
                "production storage stack",
            );
            let port = PortDb {
                inner: db.clone(),
                sh: sh.clone(),
            };
            let svc = fuel_core_relayer::new_service_verif(eth, port, cfg.clone(), retry);
            let shared = svc.shared.clone();
            drive(sh, &svc, shared, LiveDb::Prod(db), raw, disk, d).await
        }
        Disk::Plain(kv) => {
            announce(kv.history_keys().last().copied(), "port storage stack");
            let port = PortDb {
                inner: PlainDb {
                    inner: kv.clone(),
                    sh: sh.clone(),
                },
                sh: sh.clone(),
            };
            let svc = fuel_core_relayer::new_service_verif(eth, port, cfg.clone(), retry);
            let shared = svc.shared.clone();
            drive(sh, &svc, shared, LiveDb::Plain, RawView::Plain(kv.clone()), disk, d).await
        }
    }
}

async fn drive<S: Service>(
    sh: &Shared,
    svc: &S,
    shared: SharedState,
    live: LiveDb,
    raw: RawView,
    disk: &Disk,
    d: &mut Driver,
) -> Next {
    let t0 = tokio::time::Instant::now();
    {
        let mut s = lk(sh);
        s.obs = Some(Observer {
            db: live,
            raw,
            shared,
        });
        // the restarted service must see at least what was synced before, with the same content
        observe(&mut s, true);
        if s.ctx.failed() {
            return Next::Finish;
        }
    }
    match tokio::time::timeout(Duration::from_secs(3600), svc.start_and_await()).await {
        Ok(Ok(State::Started)) => {}
        other => {
            let mut s = lk(sh);
            s.ctx.ev(format!("service did not start: {other:?}"));
            s.ctx.probe("service-did-not-start");
        }
    }
    let notify = lk(sh).eth.notify.clone();
    let mut armed: Option<Halt> = None;

    let next = loop {
        // ---- state of the service ----
        {
            let mut s = lk(sh);
            observe(&mut s, false);
            if s.ctx.failed() {
                break Next::Finish;
            }
            if s.eth.storm {
                // harness protection only: the history is cut, no verdict on liveness
                let calls = s.eth.calls;
                s.ctx.ev(format!("RPC call cap hit after {calls} calls; history cut"));
                s.ctx.probe("call-cap-hit");
                break Next::Finish;
            }
            match svc.state() {
                State::StoppedWithError(msg) => {
                    s.ctx.violate(P, "service-panic", format!("the relayer task panicked: {msg}"));
                    break Next::Finish;
                }
                State::Stopped => {
                    s.ctx.ev("service stopped by itself (error without retry)");
                    s.ctx.probe("service-stopped-on-error");
                    break Next::Restart;
                }
                _ => {}
            }
        }
        if d.final_phase || d.steps_left == 0 {
            break final_phase(sh, svc, disk, d).await;
        }
        d.steps_left -= 1;
        lk(sh).eth.step_calls = 0;

        // ---- one driver step ----
        let mut stop_now: Option<Halt> = None;
        let run_kind;
        {
            let mut guard = lk(sh);
            let s = &mut *guard;
            let wr = s.k.w_restart;
            let w = [
                6,
                4,
                3,
                2,
                wr,
                wr,
                wr * 2,
                if s.k.outage { 2 } else { 0 },
                if s.k.regress { 2 } else { 0 },
            ];
            let last = s.chain.last;
            match s.ctx.tape.weighted(&w) {
                0 => s.ctx.op("step: run"),
                1 => {
                    d.true_finalized = (d.true_finalized + 1).min(last);
                    s.eth.finalized = d.true_finalized;
                    s.ctx.op(format!("step: finalized +1 -> {}", d.true_finalized));
                }
                2 => {
                    let room = last - d.true_finalized;
                    let j = if s.k.growth_profile {
                        room
                    } else {
                        (2 + s.ctx.tape.small(40)).min(room)
                    };
                    d.true_finalized += j;
                    s.eth.finalized = d.true_finalized;
                    if j > 1 {
                        s.ctx.probe("finalized-jump");
                    }
                    s.ctx.op(format!("step: finalized jumps by {j} -> {}", d.true_finalized));
                }
                3 => {
                    let n = 1 + s.ctx.tape.choose(4);
                    s.eth.syncing_polls_left = n;
                    s.ctx.op(format!("step: DA node reports syncing for {n} polls"));
                }
                4 => {
                    s.ctx.op("step: graceful restart now");
                    stop_now = Some(Halt::Graceful);
                }
                5 => {
                    s.ctx.op("step: crash now");
                    stop_now = Some(Halt::Crash);
                }
                6 => {
                    let n = s.ctx.tape.small(12);
                    let crash = s.ctx.tape.coin();
                    s.eth.halt_in = Some(n);
                    armed = Some(if crash { Halt::Crash } else { Halt::Graceful });
                    s.ctx.op(format!(
                        "step: the RPC call {n} calls from now never answers, then {}",
                        if crash { "crash" } else { "graceful restart" }
                    ));
                }
                7 => {
                    s.eth.down = !s.eth.down;
                    s.ctx.op(format!("step: DA node down={}", s.eth.down));
                }
                _ => {
                    let back = 1 + s.ctx.tape.small(10);
                    s.eth.finalized = d.true_finalized.saturating_sub(back);
                    s.ctx.probe("finalized-regress");
                    s.ctx.op(format!(
                        "step: DA node reports a stale finalized height {} (chain is at {})",
                        s.eth.finalized, d.true_finalized
                    ));
                }
            }
            run_kind = s.ctx.tape.weighted(&[4, 3, 2, 1]);
        }
        if stop_now.is_none() {
            // Run lengths are relative to the relayer's poll period so that a step lets it do a
            // few polls at most (a step must not cost thousands of RPCs).
            let (min_dur, sync_freq, node_syncing) = {
                let s = lk(sh);
                (s.k.min_dur_ms, s.k.sync_freq_ms, s.eth.syncing_polls_left > 0)
            };
            let ms = match run_kind {
                0 => 0,
                1 => 1,
                2 => min_dur,
                _ if node_syncing => sync_freq,
                _ => 1 + lk(sh).ctx.tape.choose(3 * min_dur),
            };
            if ms == 0 {
                let n = 1 + lk(sh).ctx.tape.choose(5);
                for _ in 0..n {
                    tokio::task::yield_now().await;
                }
            } else {
                tokio::select! {
                    biased;
                    _ = notify.notified() => {}
                    _ = tokio::time::sleep(Duration::from_millis(ms)) => {}
                }
            }
            if lk(sh).eth.halted {
                stop_now = armed.take().or(Some(Halt::Crash));
                let mut s = lk(sh);
                let (db_h, fin) = (s.mon.last_db, s.eth.max_reported);
                if db_h < fin {
                    s.ctx.probe("halt-point-in-the-middle-of-a-sync");
                }
            }
        }
        match stop_now {
            None => {}
            Some(Halt::Crash) => {
                let mut s = lk(sh);
                observe(&mut s, false);
                s.ctx.ev("crash: the runtime is dropped, only the store survives");
                s.ctx.probe("crash-restart");
                break Next::Restart;
            }
            Some(Halt::Graceful) => {
                let r = tokio::time::timeout(Duration::from_secs(3600), svc.stop_and_await()).await;
                let mut s = lk(sh);
                observe(&mut s, false);
                match r {
                    Ok(Ok(State::StoppedWithError(msg))) => {
                        s.ctx.violate(P, "service-panic", format!("the relayer task panicked: {msg}"));
                        break Next::Finish;
                    }
                    Ok(_) => {
                        s.ctx.ev("service stopped gracefully");
                        s.ctx.probe("graceful-restart");
                    }
                    Err(_) => {
                        s.ctx.ev("service did not stop within an hour of simulated time; crashing it");
                        s.ctx.probe("stop-timeout");
                    }
                }
                break Next::Restart;
            }
        }
    };
    let mut s = lk(sh);
    s.ctx.sim_ms += (tokio::time::Instant::now() - t0).as_millis() as u64;
    s.obs = None;
    if s.ctx.failed() {
        return Next::Finish;
    }
    next
}

/// Faults stop; the node has a fixed finalized height; the relayer has to reach it within a
/// bounded simulated time, then the service is stopped and the persisted state is checked once
/// more through a freshly opened database.
async fn final_phase<S: Service>(sh: &Shared, svc: &S, disk: &Disk, d: &mut Driver) -> Next {
    let (target, bound_ms);
    {
        let mut guard = lk(sh);
        let s = &mut *guard;
        if !d.final_phase {
            d.final_phase = true;
            s.faults_on = false;
            s.eth.down = false;
            s.eth.syncing_polls_left = 0;
            s.eth.quiet = true;
            s.eth.halt_in = None;
            let room = s.chain.last - d.true_finalized;
            let j = match s.ctx.tape.choose(3) {
                0 => 0,
                1 => room.min(1),
                _ => s.ctx.tape.choose(room + 1),
            };
            d.true_finalized += j;
            s.eth.finalized = d.true_finalized;
            s.ctx.op(format!(
                "final phase: faults stop, finalized height stays {}",
                d.true_finalized
            ));
        } else {
            s.ctx.ev("final phase continues after a restart");
        }
        target = d.true_finalized;
        let have = s.mon.last_db.unwrap_or(s.mon.first.saturating_sub(1));
        let gap = target.saturating_sub(have);
        let cycles = log2ceil(s.k.page) + gap / 25 + 8;
        // + one RPC that may still be in flight with a latency drawn before the faults stopped
        bound_ms = cycles * (s.k.min_dur_ms + 1) + 2 * s.k.sync_freq_ms + s.k.lat_max_ms + 1000;
    }
    let want: Option<u64> = {
        let s = lk(sh);
        if target >= s.mon.first { Some(target) } else { None }
    };
    let chunk = lk(sh).k.min_dur_ms.max(1);
    let mut waited = 0u64;
    loop {
        lk(sh).eth.step_calls = 0;
        tokio::time::sleep(Duration::from_millis(chunk)).await;
        waited += chunk;
        let mut guard = lk(sh);
        let s = &mut *guard;
        observe(s, false);
        if s.ctx.failed() {
            return Next::Finish;
        }
        if s.eth.storm {
            s.ctx.ev("RPC call cap hit in the final phase; history cut");
            s.ctx.probe("call-cap-hit");
            return Next::Finish;
        }
        match svc.state() {
            State::Started => {}
            State::StoppedWithError(msg) => {
                s.ctx.violate(P, "service-panic", format!("the relayer task panicked: {msg}"));
                return Next::Finish;
            }
            other => {
                s.ctx.ev(format!("service is {other:?} in the final phase; restarting it"));
                return Next::Restart;
            }
        }
        let reached = match want {
            Some(t) => s.mon.last_db == Some(t) && s.mon.last_shared == Some(t),
            None => false,
        };
        // nothing to sync: a few polls are enough to see that nothing is written
        if reached || waited >= bound_ms || (want.is_none() && waited >= 3 * chunk) {
            break;
        }
    }
    {
        let mut guard = lk(sh);
        let s = &mut *guard;
        observe(s, true);
        if s.ctx.failed() {
            return Next::Finish;
        }
        let (db_h, sh_h) = (s.mon.last_db, s.mon.last_shared);
        let first = s.mon.first;
        let reached = match want {
            Some(t) => db_h == Some(t) && sh_h == Some(t),
            None => db_h.is_none(),
        };
        let calls = s.eth.calls;
        s.ctx.check(P, "liveness-not-synced-after-faults-stop", reached, || {
            format!(
                "{bound_ms} ms after the faults stopped the DA node's finalized height is {target} but storage height = {db_h:?}, published synced height = {sh_h:?} (first height {first}, {calls} RPC calls so far)"
            )
        });
        if s.ctx.failed() {
            return Next::Finish;
        }
    }
    let r = tokio::time::timeout(Duration::from_secs(3600), svc.stop_and_await()).await;
    let mut guard = lk(sh);
    let s = &mut *guard;
    if let Ok(Ok(State::StoppedWithError(msg))) = &r {
        s.ctx.violate(P, "service-panic", format!("the relayer task panicked: {msg}"));
        return Next::Finish;
    }
    // ---- what a restart would find on disk ----
    let (persisted, keys): (Option<u64>, Vec<u64>) = match disk {
        #[cfg(feature = "prod")]
        Disk::Prod { mem, .. } => {
            let reopened = Database::<Relayer>::new(mem.clone());
            let keys: Vec<u64> = reopened
                .iter_all_keys::<EventsHistory>(Some(IterDirection::Forward))
                .filter_map(|k| k.ok())
                .map(Into::into)
                .collect();
            assert_eq!(keys.last().copied(), highest_history_key(mem));
            (HistoricalView::latest_height(&reopened).map(Into::into), keys)
        }
        Disk::Plain(kv) => {
            let keys = kv.history_keys();
            (keys.last().copied(), keys)
        }
    };
    // harness self-check: the write counter and the store agree on the highest stored height
    assert_eq!(
        keys.last().copied(),
        s.store.writes.keys().next_back().copied(),
        "write counter out of sync with the store"
    );
    let live = s.mon.last_db;
    s.ctx.check(P, "storage-height-decreased", persisted >= live, || {
        format!("after the final stop a reopened database reports height {persisted:?}, the running one reported {live:?}")
    });
    s.ctx.ev(format!(
        "final: persisted height {persisted:?}, {} EventsHistory entries [{:?}..{:?}], {} commits reached the store",
        keys.len(),
        keys.first(),
        keys.last(),
        s.store.commits
    ));
    if let (Some(lo), Some(hi)) = (keys.first(), keys.last()) {
        if *lo < s.mon.first {
            s.ctx.probe("entries-below-first-height");
        }
        if Some(*hi) > persisted {
            s.ctx.probe("entries-above-persisted-height");
        }
    }
    s.ctx.probe("run-completed");
    Next::Finish
}

fn run_inner(sh: &Shared) {
    let plain = lk(sh).k.plain_storage;
    #[cfg(feature = "prod")]
    let disk = if plain {
        Disk::Plain(Arc::new(MemKv::default()))
    } else {
        let mem = Arc::new(MemoryStore::<Relayer>::default());
        let faulty = Arc::new(FaultyStore {
            inner: mem.clone(),
            sh: sh.clone(),
        });
        Disk::Prod { mem, faulty }
    };
    #[cfg(not(feature = "prod"))]
    let disk = {
        let _ = plain;
        Disk::Plain(Arc::new(MemKv::default()))
    };
    let (cfg, mut d) = {
        let mut guard = lk(sh);
        let s = &mut *guard;
        let cfg = Config {
            da_deploy_height: DaBlockHeight(s.k.deploy),
            relayer: None,
            eth_v2_listening_contracts: s.chain.contracts.clone(),
            log_page_size: s.k.page,
            max_logs_per_rpc: s.k.max_logs,
            sync_minimum_duration: Duration::from_millis(s.k.min_dur_ms),
            syncing_call_frequency: Duration::from_millis(s.k.sync_freq_ms),
            syncing_log_frequency: Duration::from_secs(60),
            metrics: false,
        };
        let d = Driver {
            steps_left: s.k.steps,
            final_phase: false,
            true_finalized: s.eth.finalized,
            incarnation: 0,
        };
        (cfg, d)
    };
    loop {
        let rt = build_rt();
        let next = rt.block_on(incarnation(sh, &disk, &cfg, &mut d));
        // dropping the runtime drops the service task wherever it is suspended
        drop(rt);
        match next {
            Next::Finish => break,
            Next::Restart => {
                // every driver step restarts the service at most once
                if d.incarnation > lk(sh).k.steps + 60 {
                    let n = d.incarnation;
                    lk(sh).ctx.violate(
                        P,
                        "liveness-restart-loop",
                        format!("the relayer service stopped by itself {n} times in one history"),
                    );
                    break;
                }
            }
        }
    }
}

struct Relay;

impl World for Relay {
    fn name(&self) -> &'static str {
        "w8_relayer"
    }
    fn properties(&self) -> Vec<&'static str> {
        vec![P]
    }
    fn real_components(&self) -> Vec<&'static str> {
        vec![
            "fuel_core_relayer service: NotInitializedTask/Task under fuel_core_services::ServiceRunner (run loop, wait_if_eth_syncing, build_eth, download_logs, write_logs, update_synced), built by new_service_internal through the cfg(fuel_core_verif) constructor new_service_verif with retry_on_error=true (production, 3 of 4 runs) or false (new_service_test configuration)",
            "fuel_core_relayer AdaptivePageSizer, EthSyncGap/EthSyncPage::advance_and_resize, sort_events_by_log_index, EthEventLog decoding (abi MessageSent / Transaction)",
            "fuel_core_relayer::storage: RelayerDb::insert_events (blanket impl over ports::Transactional), EventsHistory table (Plain<Primitive<8>, Postcard>), fuel_core_storage StorageTransaction / StructuredStorage",
            "production storage stack (2 of 3 runs): fuel_core::database::Database<Relayer> incl. commit_changes_with_height_update (height link check, metadata table, in-memory height), fuel-core's Transactional adapter, over fuel_core::state::in_memory::memory_store::MemoryStore<Relayer> (the store that survives restarts)",
            "tokio current-thread runtime with paused clock (all relayer timers run on simulated time)",
        ]
    }
    fn stubs(&self) -> Vec<&'static str> {
        vec![
            "DA node: SimEth implements alloy_provider::Provider (get_block(finalized), get_logs, syncing) over a generated immutable log set; latency, RPC errors (transport / error response / null), node limits (max block range, max results), syncing flag, finalized-height movement (stall, +1, jump, stale value) from the tape; after 64 calls within one driver step further calls take one poll period (keeps simulated time moving)",
            "port storage stack (1 of 3 runs): PlainDb, a minimal implementation of the relayer's public ports::Transactional over MemKv (sorted in-memory map; latest height = highest EventsHistory key); it has no height-link check, so the relayer's own write discipline is what is observed",
            "storage faults in both stacks (FaultyStore around MemoryStore / PlainDb): commit error before apply, commit applied with lost acknowledgement, read error; RocksDB is not used in this world",
            "the process-global fuel-core-metrics registry is cleared before every service start (it grows with every ServiceRunner::new; busy/idle metrics are not observed)",
            "process crash = dropping the tokio runtime (tasks die at their await point; a commit is atomic); graceful restart = ServiceRunner::stop_and_await; the QuorumProvider/HTTP transport is not run",
        ]
    }
    fn default_runs(&self, _prop: &str, tier: Tier) -> u64 {
        match tier {
            Tier::Quick => 6000,
            Tier::Thorough => 500_000,
        }
    }
    fn nontrivial_min_ops(&self, _prop: &str) -> u64 {
        5
    }
    fn assumptions(&self, _prop: &str) -> Vec<String> {
        vec![
            "logs of heights at or below a finalized height the node has reported never change (no reorg of finalized blocks); heights above it are served with different (tentative) content".into(),
            "DA height 0 (genesis) carries no logs; with da_deploy_height = 0 the relayer starts at height 1 and the oracle's first height is 1".into(),
            "'written twice' is judged on acknowledged writes: a height whose write was acknowledged must never reach the store again (class write-twice); after an injected lost acknowledgement the same height may be written again only with byte-identical content (class rewrite-differs); every write must be the successor of the highest stored height (class write-skips)".into(),
            "log indices are unique within a DA block; responses may list logs in any order; all logs of the listening contracts with the MessageSent/Transaction topics are well-formed ABI encodings".into(),
            "liveness is only asserted after RPC/storage faults stop; node limits (max block range / max results, each satisfiable with a one-block page) stay in force; bound = (log2(page)+gap/25+8)*(sync_minimum_duration+1ms)+2*syncing_call_frequency+max RPC latency+1s of simulated time".into(),
            "the relayer's synced height is observed at RelayerDb::get_finalized_da_height (storage) and SharedState::get_finalized_da_height (published), at every RPC the relayer issues, after every driver step and across restarts".into(),
            "a write that the production storage rejects on its own (height link check) is not counted as 'written'; such rejections are reported as probe storage-rejected-write (0 on the unchanged tree); the port storage stack accepts every write, there the same relayer behaviour shows up as write-twice / write-skips".into(),
            "probe unthrottled-poll-after-nothing-to-sync counts polls issued at the very instant the relayer learnt there is nothing to sync (its sleep depends on the Synced flag, which is only set after a download); this is outside C29 and only reported".into(),
        ]
    }

    fn run(&self, ctx: &mut Ctx) {
        // ---- configuration (swarm) ----
        let (k, ck, fault_free) = draw_knobs(ctx);
        let chain = eth::generate_chain(ctx, &ck);
        let mut k = k;
        // a one-block page must always fit the node's result limit
        if let Some(c) = k.cap_results {
            k.cap_results = Some(c.max(chain.max_logs_in_one_height + 1));
        }
        let first = if k.deploy == 0 { 1 } else { k.deploy };
        let start_finalized = match ctx.tape.choose(4) {
            0 => k.deploy,
            1 => k.deploy.saturating_sub(1 + ctx.tape.choose(2)),
            2 => k.deploy + ctx.tape.choose(8),
            _ => k.deploy + ctx.tape.choose(chain.last - k.deploy + 1),
        }
        .min(chain.last);
        ctx.ev(format!(
            "config: deploy={} heights={}..={} page={} max_logs_per_rpc={} min_dur={}ms sync_freq={}ms retry={} steps={} growth={} fault_free={} rates(transport={},resp={},null_block={},commit_fail={},lost_ack={},read={}) caps(range={:?},results={:?}) lat_max={}ms shuffle={} sloppy_topics={} outage={} regress={} restart_w={} contracts={} fuel_events={} start_finalized={}",
            k.deploy, chain.first, chain.last, k.page, k.max_logs, k.min_dur_ms, k.sync_freq_ms, k.retry,
            k.steps, k.growth_profile, fault_free, k.r_rpc_transport, k.r_rpc_resp, k.r_pending,
            k.r_commit_fail, k.r_lost_ack, k.r_read_err, k.cap_range, k.cap_results, k.lat_max_ms,
            k.shuffle, k.sloppy_topics, k.outage, k.regress, k.w_restart, chain.contracts.len(),
            chain.expected.values().map(|v| v.len()).sum::<usize>(), start_finalized
        ));
        let call_cap = 40 * (chain.last - chain.first + 50) + 100 * k.steps;
        let placeholder = Ctx::new(Tape::replay(Vec::new()), "", Tier::Quick, false, Vec::new());
        let real_ctx = std::mem::replace(ctx, placeholder);
        let sh: Shared = Arc::new(Mutex::new(Sh {
            ctx: real_ctx,
            k,
            chain,
            eth: EthNode::new(start_finalized, call_cap),
            faults_on: fault_free == 0,
            store: StoreAcct::default(),
            obs: None,
            mon: Monitor {
                first,
                ..Default::default()
            },
        }));
        let res = std::panic::catch_unwind(std::panic::AssertUnwindSafe(|| run_inner(&sh)));
        {
            let mut s = lk(&sh);
            // break the Arc cycle (observer -> database -> store -> shared)
            s.obs = None;
            let placeholder =
                Ctx::new(Tape::replay(Vec::new()), "", Tier::Quick, false, Vec::new());
            *ctx = std::mem::replace(&mut s.ctx, placeholder);
        }
        if let Err(p) = res {
            std::panic::resume_unwind(p);
        }
    }
}

fn main() {
    simkit::cli::main_world(&Relay)
}
