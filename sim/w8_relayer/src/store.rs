//! Storage side of the world.
//!
//! Two storage stacks run the REAL `RelayerDb::insert_events` (fuel_core_relayer::storage) and
//! the real `EventsHistory` table codec; the tape chooses one per run:
//!
//! * **production stack**: the real `fuel_core::database::Database<Relayer>` (height bookkeeping,
//!   metadata table, `HeightsAreNotLinked` check, `Transactional` adapter of fuel-core) over
//!   [`FaultyStore`], a thin fault-injecting wrapper of the real `MemoryStore<Relayer>`.
//! * **port stack**: [`PlainDb`], a minimal implementation of the relayer's public
//!   `ports::Transactional` port over [`MemKv`], a sorted in-memory key-value store (latest
//!   height = highest `EventsHistory` key). It accepts whatever the relayer writes, so the
//!   relayer's own exactly-once discipline is visible without fuel-core's link check masking it.
//!
//! The production stack needs the `fuel-core` crate (cargo feature `prod`, on by default).
//!
//! Both stacks account every commit per DA height (applied / acknowledged / bytes) — the write
//! counter of the oracle — and inject the same faults: commit error before apply, commit applied
//! with lost acknowledgement, read error. [`PortDb`] wraps either stack at the `RelayerDb` port
//! to log the calls and to notice writes the storage rejected on its own.

use crate::{
    Shared,
    lk,
};
#[cfg(feature = "prod")]
use fuel_core::{
    database::database_description::relayer::Relayer,
    state::{
        IterableKeyValueView,
        KeyValueView,
        TransactableStorage,
        in_memory::memory_store::MemoryStore,
    },
};
use fuel_core_relayer::{
    ports::{
        RelayerDb,
        Transactional,
    },
    storage::Column,
};
#[cfg(feature = "prod")]
use fuel_core_storage::{
    iter::{
        BoxedIter,
        IterDirection,
        IterableStore,
    },
    kv_store::{
        KVItem,
        KeyItem,
    },
    transactional::StorageChanges,
};
use fuel_core_storage::{
    Result as StorageResult,
    kv_store::{
        KeyValueInspect,
        Value,
        WriteOperation,
    },
    transactional::{
        Changes,
        IntoTransaction,
        Modifiable,
        StorageTransaction,
    },
};
use fuel_core_types::{
    blockchain::primitives::DaBlockHeight,
    services::relayer::Event,
};
use std::{
    collections::BTreeMap,
    sync::{
        Arc,
        Mutex,
    },
};

/// What the store saw for one DA height.
#[derive(Default, Clone)]
pub struct WriteRec {
    /// commits that reached the underlying store (including lost-ack ones)
    pub applied: u32,
    /// commits whose `Ok` was returned to the caller
    pub acked: u32,
    /// value bytes of the first applied write
    pub bytes: Vec<u8>,
}

#[derive(Default)]
pub struct StoreAcct {
    pub writes: BTreeMap<u64, WriteRec>,
    pub commits: u64,
    /// injected storage faults so far (to tell injected errors from the storage's own)
    pub injected: u64,
    /// faults are not injected while the harness itself opens the database
    pub suspended: bool,
}

type HistEntries = Vec<(Vec<u8>, Option<Vec<u8>>)>;

fn history_entries<'a>(changes: impl Iterator<Item = &'a Changes>) -> (HistEntries, usize) {
    let mut out = Vec::new();
    let mut other = 0usize;
    for ch in changes {
        for (col, entries) in ch {
            if *col == Column::History.as_u32() {
                for (k, op) in entries {
                    let key: &[u8] = k.as_ref();
                    out.push((
                        key.to_vec(),
                        match op {
                            WriteOperation::Insert(v) => Some(v.to_vec()),
                            WriteOperation::Remove => None,
                        },
                    ));
                }
            } else {
                other += entries.len();
            }
        }
    }
    out.sort();
    (out, other)
}

pub enum CommitFault {
    None,
    FailBefore,
    LostAck,
}

/// Before a commit is applied: log it, check the write discipline, decide the fault.
/// `height`: the height the database layer attached to the commit (production stack only).
fn before_commit(
    sh: &Shared,
    height: Option<Option<u64>>,
    hist: &HistEntries,
) -> (CommitFault, Option<(u64, Vec<u8>)>) {
    let mut s = lk(sh);
    s.store.commits += 1;
    let keys: Vec<String> = hist
        .iter()
        .map(|(k, v)| {
            let kk = if k.len() == 8 {
                u64::from_be_bytes(k.as_slice().try_into().unwrap()).to_string()
            } else {
                format!("{k:02x?}")
            };
            match v {
                Some(v) => format!("{kk}:{}B", v.len()),
                None => format!("{kk}:remove"),
            }
        })
        .collect();
    s.ctx.ev(format!("db commit height={height:?} history=[{}]", keys.join(",")));

    // ---- write discipline (the oracle's write counter) ----
    let key_height = (hist.len() == 1 && hist[0].1.is_some() && hist[0].0.len() == 8)
        .then(|| u64::from_be_bytes(hist[0].0.as_slice().try_into().unwrap()));
    let shape_ok = key_height.is_some()
        && match height {
            Some(hh) => hh == key_height,
            None => true,
        };
    s.ctx.check("C29", "write-shape", shape_ok, || {
        format!(
            "a relayer commit must insert exactly the EventsHistory entry of its height; got height={height:?} history entries={keys:?}"
        )
    });
    let mut acct = None;
    if shape_ok {
        let h = key_height.unwrap();
        let bytes = hist[0].1.clone().unwrap();
        let top = s.store.writes.keys().next_back().copied();
        let existing = s.store.writes.get(&h).cloned();
        if let Some(rec) = &existing {
            s.ctx.check("C29", "write-twice", rec.acked == 0, || {
                format!(
                    "DA height {h} was written again after its write had been acknowledged ({} acknowledged, {} applied writes before)",
                    rec.acked, rec.applied
                )
            });
            s.ctx.check("C29", "rewrite-differs", rec.bytes == bytes, || {
                format!(
                    "DA height {h} was rewritten with different content ({} bytes before, {} bytes now)",
                    rec.bytes.len(),
                    bytes.len()
                )
            });
            if rec.acked == 0 {
                s.ctx.probe("rewrite-after-lost-ack");
            }
        } else if let Some(top) = top {
            s.ctx.check("C29", "write-skips", h == top.wrapping_add(1), || {
                format!(
                    "DA height {h} was written while the highest stored height is {top} (heights must be written consecutively)"
                )
            });
        }
        acct = Some((h, bytes));
    }

    // ---- injected faults ----
    let fault = if s.faults_on && !s.store.suspended {
        let (rf, rl) = (s.k.r_commit_fail, s.k.r_lost_ack);
        if rf > 0 && s.ctx.tape.chance(rf, 100) {
            CommitFault::FailBefore
        } else if rl > 0 && s.ctx.tape.chance(rl, 100) {
            CommitFault::LostAck
        } else {
            CommitFault::None
        }
    } else {
        CommitFault::None
    };
    if let CommitFault::FailBefore = fault {
        s.store.injected += 1;
        s.ctx.fault("db-commit-fail-before-apply");
        s.ctx.ev("db commit -> injected error, nothing written");
    }
    (fault, acct)
}

/// After the underlying store applied a commit.
fn after_commit(
    sh: &Shared,
    fault: &CommitFault,
    acct: Option<(u64, Vec<u8>)>,
) -> StorageResult<()> {
    let mut s = lk(sh);
    let lost = matches!(fault, CommitFault::LostAck);
    if let Some((h, bytes)) = acct {
        let rec = s.store.writes.entry(h).or_default();
        if rec.applied == 0 {
            rec.bytes = bytes;
        }
        rec.applied += 1;
        if !lost {
            rec.acked += 1;
        }
    }
    if lost {
        s.store.injected += 1;
        s.ctx.fault("db-commit-lost-ack");
        s.ctx.ev("db commit -> applied, but an injected error is returned (lost ack)");
        return Err(anyhow::anyhow!("injected: commit acknowledgement lost").into());
    }
    Ok(())
}

fn maybe_read_fault(sh: &Shared, column: u32) -> StorageResult<()> {
    let mut s = lk(sh);
    if s.faults_on && !s.store.suspended && s.k.r_read_err > 0 {
        let r = s.k.r_read_err;
        if s.ctx.tape.chance(r, 100) {
            s.store.injected += 1;
            s.ctx.fault("db-read-error");
            s.ctx.ev(format!("db get column={column} -> injected read error"));
            return Err(anyhow::anyhow!("injected: read error").into());
        }
    }
    Ok(())
}

// ------------------------------------------------------------------------------------------
// production stack: Database<Relayer> over FaultyStore
// ------------------------------------------------------------------------------------------

#[cfg(feature = "prod")]
pub use prod::*;

#[cfg(feature = "prod")]
mod prod {
    use super::*;

    pub struct FaultyStore {
        pub inner: Arc<MemoryStore<Relayer>>,
        pub sh: Shared,
    }

    impl core::fmt::Debug for FaultyStore {
        fn fmt(&self, f: &mut core::fmt::Formatter<'_>) -> core::fmt::Result {
            f.write_str("FaultyStore(MemoryStore<Relayer>)")
        }
    }

    impl KeyValueInspect for FaultyStore {
        type Column = Column;

        fn get(&self, key: &[u8], column: Self::Column) -> StorageResult<Option<Value>> {
            maybe_read_fault(&self.sh, column.as_u32())?;
            self.inner.get(key, column)
        }
    }

    impl IterableStore for FaultyStore {
        fn iter_store(
            &self,
            column: Self::Column,
            prefix: Option<&[u8]>,
            start: Option<&[u8]>,
            direction: IterDirection,
        ) -> BoxedIter<'_, KVItem> {
            self.inner.iter_store(column, prefix, start, direction)
        }

        fn iter_store_keys(
            &self,
            column: Self::Column,
            prefix: Option<&[u8]>,
            start: Option<&[u8]>,
            direction: IterDirection,
        ) -> BoxedIter<'_, KeyItem> {
            self.inner.iter_store_keys(column, prefix, start, direction)
        }
    }

    impl TransactableStorage<DaBlockHeight> for FaultyStore {
        fn commit_changes(
            &self,
            height: Option<DaBlockHeight>,
            changes: StorageChanges,
        ) -> StorageResult<()> {
            let (hist, _) = match &changes {
                StorageChanges::Changes(c) => history_entries(std::iter::once(c)),
                StorageChanges::ChangesList(l) => history_entries(l.iter()),
            };
            let (fault, acct) = before_commit(&self.sh, Some(height.map(Into::into)), &hist);
            if let CommitFault::FailBefore = fault {
                return Err(anyhow::anyhow!("injected: commit failed").into());
            }
            if let Err(e) = self.inner.commit_changes(height, changes) {
                lk(&self.sh).ctx.ev(format!("db commit -> store error {e:?}"));
                return Err(e);
            }
            after_commit(&self.sh, &fault, acct)
        }

        fn view_at_height(
            &self,
            height: &DaBlockHeight,
        ) -> StorageResult<KeyValueView<Self::Column, DaBlockHeight>> {
            self.inner.view_at_height(height)
        }

        fn latest_view(
            &self,
        ) -> StorageResult<IterableKeyValueView<Self::Column, DaBlockHeight>> {
            self.inner.latest_view()
        }

        fn rollback_block_to(&self, height: &DaBlockHeight) -> StorageResult<()> {
            self.inner.rollback_block_to(height)
        }
    }

    /// Highest `EventsHistory` key of the store (no faults; used by the oracle).
    pub fn highest_history_key(store: &MemoryStore<Relayer>) -> Option<u64> {
        store
            .iter_store_keys(Column::History, None, None, IterDirection::Reverse)
            .next()
            .and_then(|k| k.ok())
            .and_then(|k| <[u8; 8]>::try_from(k.as_slice()).ok())
            .map(u64::from_be_bytes)
    }
}

// ------------------------------------------------------------------------------------------
// port stack: the relayer's `Transactional` port over the bare MemoryStore
// ------------------------------------------------------------------------------------------

/// Sorted in-memory key-value store: the "disk" of the port stack.
#[derive(Default)]
pub struct MemKv {
    map: Mutex<BTreeMap<(u32, Vec<u8>), Value>>,
}

impl MemKv {
    fn apply(&self, changes: Changes) {
        let mut m = self.map.lock().unwrap_or_else(|e| e.into_inner());
        for (col, entries) in changes {
            for (k, op) in entries {
                let key: Vec<u8> = k.into();
                match op {
                    WriteOperation::Insert(v) => {
                        m.insert((col, key), v);
                    }
                    WriteOperation::Remove => {
                        m.remove(&(col, key));
                    }
                }
            }
        }
    }

    /// All `EventsHistory` keys in ascending order (no faults; used by the oracle).
    pub fn history_keys(&self) -> Vec<u64> {
        let m = self.map.lock().unwrap_or_else(|e| e.into_inner());
        let col = Column::History.as_u32();
        m.range((col, Vec::new())..(col + 1, Vec::new()))
            .filter_map(|((_, k), _)| <[u8; 8]>::try_from(k.as_slice()).ok())
            .map(u64::from_be_bytes)
            .collect()
    }
}

impl KeyValueInspect for MemKv {
    type Column = Column;

    fn get(&self, key: &[u8], column: Self::Column) -> StorageResult<Option<Value>> {
        let m = self.map.lock().unwrap_or_else(|e| e.into_inner());
        Ok(m.get(&(column.as_u32(), key.to_vec())).cloned())
    }
}

#[derive(Clone)]
pub struct PlainDb {
    pub inner: Arc<MemKv>,
    pub sh: Shared,
}

impl KeyValueInspect for PlainDb {
    type Column = Column;

    fn get(&self, key: &[u8], column: Self::Column) -> StorageResult<Option<Value>> {
        maybe_read_fault(&self.sh, column.as_u32())?;
        self.inner.get(key, column)
    }
}

impl Modifiable for PlainDb {
    fn commit_changes(&mut self, changes: Changes) -> StorageResult<()> {
        let (hist, other) = history_entries(std::iter::once(&changes));
        if other > 0 {
            let mut s = lk(&self.sh);
            s.ctx.violate(
                "C29",
                "write-shape",
                format!("a relayer commit touched {other} entries outside EventsHistory"),
            );
        }
        let (fault, acct) = before_commit(&self.sh, None, &hist);
        if let CommitFault::FailBefore = fault {
            return Err(anyhow::anyhow!("injected: commit failed").into());
        }
        self.inner.apply(changes);
        after_commit(&self.sh, &fault, acct)
    }
}

impl Transactional for PlainDb {
    type Transaction<'a>
        = StorageTransaction<&'a mut Self>
    where
        Self: 'a;

    fn transaction(&mut self) -> Self::Transaction<'_> {
        self.into_transaction()
    }

    fn latest_da_height(&self) -> Option<DaBlockHeight> {
        // the highest `EventsHistory` key: every applied commit is accounted, so this is the
        // highest accounted height (cross-checked against the store at the end of the run)
        lk(&self.sh)
            .store
            .writes
            .keys()
            .next_back()
            .copied()
            .map(DaBlockHeight)
    }
}

// ------------------------------------------------------------------------------------------
// the RelayerDb port as the service sees it
// ------------------------------------------------------------------------------------------

/// Wraps a storage stack at the `RelayerDb` port: logs every call of the service and notices
/// writes that the storage rejected although no fault was injected.
pub struct PortDb<D> {
    pub inner: D,
    pub sh: Shared,
}

impl<D: RelayerDb> RelayerDb for PortDb<D> {
    fn insert_events(
        &mut self,
        da_height: &DaBlockHeight,
        events: &[Event],
    ) -> StorageResult<()> {
        let before = {
            let mut s = lk(&self.sh);
            s.ctx.ev(format!("insert_events height={} events={}", da_height.0, events.len()));
            s.store.injected
        };
        let res = self.inner.insert_events(da_height, events);
        if let Err(e) = &res {
            let mut s = lk(&self.sh);
            let injected = s.store.injected != before;
            s.ctx.ev(format!("insert_events height={} -> error (injected={injected})", da_height.0));
            if !injected {
                s.ctx.probe("storage-rejected-write");
                s.ctx.ev(format!("storage's own error: {e:?}"));
            }
        }
        res
    }

    fn get_finalized_da_height(&self) -> Option<DaBlockHeight> {
        self.inner.get_finalized_da_height()
    }
}
