#!/opt/veriftools/pyvenv/bin/python3
"""Validate MANIFEST.json and every evidence file against the schemas in /root/.vp."""
import json, sys, glob, jsonschema
ok = True
ms = json.load(open('/root/.vp/MANIFEST.schema.json'))
es = json.load(open('/root/.vp/EVIDENCE.schema.json'))
try:
    m = json.load(open('/verif/MANIFEST.json'))
    jsonschema.validate(m, ms)
    print('MANIFEST ok,', len(m['checks']), 'checks,', len(m.get('not_applicable', [])), 'not_applicable')
except Exception as e:
    ok = False; print('MANIFEST INVALID', e)
for f in sorted(glob.glob('/verif/evidence/*.json')):
    try:
        jsonschema.validate(json.load(open(f)), es)
    except Exception as e:
        ok = False; print(f, 'INVALID', str(e)[:300])
print('evidence files checked:', len(glob.glob('/verif/evidence/*.json')))
sys.exit(0 if ok else 1)
