#!/usr/bin/env python3
"""confirm_seed.py <seeded id> [--tests "<cargo test args>"]

Independent confirmation of a seeded change delivered by a seeding sub-agent
(/verif/seeded/<id>/{patch.diff, demo.diff, meta.json}) in a fresh scratch worktree of /repo:
  1. the patch applies and the demonstration FAILS with it,
  2. the demonstration PASSES without it,
  3. the existing tests of the touched crate(s) pass with it.
Writes the outcome into meta.json under "confirmed" and removes the worktree. A shared
target directory (/tmp/confirm-target) keeps rebuilds short; remove it when all is done.
"""
import json, os, re, subprocess, sys, shlex

sid = sys.argv[1]
d = f"/verif/seeded/{sid}"
meta = json.load(open(f"{d}/meta.json"))
wt = f"/tmp/confirm-{sid}"
env = dict(os.environ, CARGO_TARGET_DIR="/tmp/confirm-target", CARGO_NET_OFFLINE="true")


def sh(cmd, cwd=None, timeout=7200):
    r = subprocess.run(cmd, shell=True, cwd=cwd, env=env, text=True, stdout=subprocess.PIPE, stderr=subprocess.STDOUT, timeout=timeout)
    return r.returncode, r.stdout


subprocess.run(f"git -C /repo worktree remove --force {wt}", shell=True, stderr=subprocess.DEVNULL, stdout=subprocess.DEVNULL)
rc, out = sh(f"git -C /repo worktree add {wt} HEAD")
assert rc == 0, out
res = {}
try:
    rc, out = sh(f"git apply {d}/demo.diff", cwd=wt)
    res["demo_applies"] = rc == 0
    if rc != 0:
        res["demo_apply_error"] = out[-500:]
    rc, out = sh(f"git apply {d}/patch.diff", cwd=wt)
    res["patch_applies"] = rc == 0
    demo_cmd = meta["demo_cmd"]
    # keep only the cargo part, run it in our worktree with our target dir
    m = re.search(r"(cargo\s+(test|run)[^\n(]*)", demo_cmd)
    cargo_cmd = m.group(1).strip() if m else demo_cmd
    cargo_cmd = re.sub(r"CARGO_[A-Z_]+=\S+\s*", "", cargo_cmd)
    res["demo_cmd_used"] = cargo_cmd
    rc1, out1 = sh(cargo_cmd, cwd=wt)
    res["demo_with_change_exit"] = rc1
    res["demo_with_change_tail"] = "\n".join(out1.splitlines()[-6:])
    sh(f"git apply -R {d}/patch.diff", cwd=wt)
    rc2, out2 = sh(cargo_cmd, cwd=wt)
    res["demo_without_change_exit"] = rc2
    res["demo_without_change_tail"] = "\n".join(out2.splitlines()[-4:])
    sh(f"git apply {d}/patch.diff", cwd=wt)
    # existing tests of the touched crates
    crates = set()
    for line in open(f"{d}/patch.diff"):
        if line.startswith("+++ b/"):
            path = line[6:].strip()
            p = os.path.dirname(path)
            while p and not os.path.exists(os.path.join(wt, p, "Cargo.toml")):
                p = os.path.dirname(p)
            if p:
                for l in open(os.path.join(wt, p, "Cargo.toml")):
                    if l.startswith("name"):
                        crates.add(l.split('"')[1])
                        break
    extra = ""
    if "--tests" in sys.argv:
        extra = sys.argv[sys.argv.index("--tests") + 1]
    tests = {}
    for c in sorted(crates):
        # remove the demo first so that only EXISTING tests run
        sh(f"git apply -R {d}/demo.diff", cwd=wt)
        rc3, out3 = sh(f"cargo test --offline -p {c} {extra}", cwd=wt)
        lines = [l for l in out3.splitlines() if l.startswith("test result") or "FAILED" in l or l.startswith("error")]
        tests[c] = {"exit": rc3, "lines": lines[-8:]}
    res["existing_tests_with_change"] = tests
    res["ok"] = bool(res["patch_applies"] and rc1 != 0 and rc2 == 0)
finally:
    subprocess.run(f"git -C /repo worktree remove --force {wt}", shell=True)
meta["confirmed"] = res
json.dump(meta, open(f"{d}/meta.json", "w"), indent=1)
print(json.dumps(res, indent=1)[:3000])
