#!/usr/bin/env python3
"""Generate /verif/MANIFEST.json from tools/worlds.json and tools/props_meta.json."""
import json, os
ROOT = '/verif'
import glob
worlds = {'worlds': {}, 'properties': {}}
meta = {}
for f in sorted(glob.glob(f'{ROOT}/tools/worlds.d/*.json')):
    w = json.load(open(f))
    worlds['worlds'][w['name']] = w
    for pid, m in w['properties'].items():
        worlds['properties'][pid] = w['name']
        meta[pid] = m
for pid, reason in json.load(open(f'{ROOT}/tools/not_applicable.json')).items():
    if pid not in meta:
        meta[pid] = {'na_reason': reason}
props = [json.loads(l) for l in open(f'{ROOT}/properties.jsonl')]
checks = []
na = []
for p in props:
    pid = p['id']
    m = meta.get(pid, {})
    if pid in worlds['properties']:
        w = worlds['properties'][pid]
        checks.append({
            'property_id': pid,
            'quick_cmd': f'./check {pid} quick',
            'thorough_cmd': f'./check {pid} thorough',
            'evidence_file': f'/verif/evidence/{pid}.json',
            'replay_cmd_template': f'./check {pid} --replay {{path}}',
            'engine': w,
            'level_claimed': {
                'category': 'exploration',
                'text': m['level'],
                'design_ref': m.get('design_ref', f'DESIGN.md §4 {pid}'),
            },
            'level_note': m['note'],
            'technique': m.get('technique', 'deterministic simulation with fault injection: seeded search over schedules/fault sequences against a reference-model oracle, tape replay + minimisation'),
        })
    else:
        na.append({'property_id': pid, 'reason': m.get('na_reason', 'not claimed: designed in DESIGN.md §4 but its world is not built yet (no check registered)')})
engines = []
for w, spec in worlds['worlds'].items():
    engines.append({'name': w, 'path': f"/verif/{spec.get('workspace','sim')}/{w}", 'serves_properties': [p for p, ww in worlds['properties'].items() if ww == w], 'kind_free_text': spec.get('kind', 'deterministic simulation world (real fuel-core components + simulated parties, tape-driven)')})
man = {
    'version': 1,
    'setup_cmd': './check build-all',
    'hooks': {
        'guard': '--cfg fuel_core_verif',
        'enable': 'RUSTFLAGS="--cfg fuel_core_verif --cfg tokio_unstable" via /verif/sim/.cargo/config.toml (harness build only, target dir /verif/target); nothing else sets the cfg, so a plain build or test run of /repo has the guard off',
        'baseline_off_cmd': 'cd /repo && CARGO_NET_OFFLINE=true cargo nextest run --workspace --no-fail-fast --tool-config-file pb:/w/lib/nextest.toml --profile pb --test-threads 8 --offline',
        'source_commits': [l.split()[0] for l in __import__('subprocess').run('git -C /repo log --format="%h %s" --grep "^verif hook"', shell=True, capture_output=True, text=True).stdout.splitlines()],
        'add_only': True,
    },
    'engines': engines,
    'checks': checks,
    'not_applicable': na,
    'notes': 'One CLI: ./check <ID> quick|thorough|--replay FILE. Exit 0 held / 1 VIOLATION / 2 harness error. Known findings and fixed defects: /verif/known-findings.txt. See DESIGN.md.',
}
json.dump(man, open(f'{ROOT}/MANIFEST.json', 'w'), indent=1)
print('checks', len(checks), 'not_applicable', len(na))
