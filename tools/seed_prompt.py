#!/usr/bin/env python3
"""seed_prompt.py <property id> <n> — print the prompt for an independent sub-agent that writes a
property-breaking change (it sees the property text only, never /verif)."""
import json, sys
pid, n = sys.argv[1], sys.argv[2]
p = next(json.loads(l) for l in open('/verif/properties.jsonl') if json.loads(l)['id'] == pid)
wt = f"/tmp/seed-{pid}-{n}"
print(f"""You are a careful Rust engineer acting as an adversarial "bug seeder" for a verification study of the repository FuelLabs/fuel-core. There is NO network; everything builds offline (toolchain 1.93.0 is pinned by the repo's rust-toolchain.toml).

Property that must hold for the code base (this text is ALL you are given about the verification effort; do not look for or read anything under /verif — it does not concern you and reading it would invalidate the study):

  id: {p['id']} — {p['title']}
  statement: {p['statement']}
  quantified over: {p['quantifier']['text']}
  code the property is anchored in: {', '.join(p['anchors']['files'])}

Your task: produce ONE small, realistic change to the source of fuel-core that BREAKS this property while the code still compiles and the EXISTING tests still pass. It should look like a plausible mistake or an innocent-looking refactoring/optimisation a maintainer could make (off-by-one, wrong comparison, missing check on one path, stale value reused, update done in the wrong order, early return that skips bookkeeping, wrong variable of two similar ones, ...). Strongly prefer a change that needs something SPECIFIC to manifest — a particular interleaving, a crash or fault at a particular point, a multi-step sequence of operations, an unusual input, or two cooperating sites that each look fine alone — rather than one that ordinary use would expose at once. Do not touch tests, do not add feature flags, do not change public signatures, keep the diff small (typically 1–15 lines), production code only.

How to work:
1. Create your own scratch worktree (never edit /repo itself): `git -C /repo worktree add {wt} HEAD` and work ONLY inside {wt}. Use `CARGO_TARGET_DIR={wt}/target` and `CARGO_NET_OFFLINE=true` for every cargo command (add `--offline`). The machine is shared and busy: build only the crate(s) you touch (`cargo test --offline -p <crate>`), not the whole workspace, unless your change is in a crate whose behaviour is only tested from another crate (then run those tests too). Builds of the big `fuel-core` crate take 20+ minutes; prefer a change in one of the smaller crates named in the anchors when that is possible.
2. Read the anchored code and its existing tests, pick the change, apply it in the worktree.
3. Confirm: the touched crate(s) compile without warnings-as-errors failures and their existing tests pass WITH your change (run them; paste the summary lines). If an existing test fails, pick another change.
4. Write a demonstration: a new Rust test (put it in a new file or test module inside the worktree, clearly separate from your change) or a small program that FAILS with your change and PASSES without it. Run it both ways (use `git stash`/`git diff` inside YOUR worktree only) and record both outcomes.
5. Deliverables, all under {wt}/OUT/ :
   - `patch.diff` — `git diff` of the production change ONLY (no demonstration code), relative to the repo root, so that `git -C /repo apply patch.diff` would work on the pristine tree;
   - `demo.diff` (or the demo source file) — the demonstration, with the exact command to run it;
   - `meta.json` — {{"property": "{pid}", "summary": "...what was changed...", "why_it_breaks": "...", "needs_to_manifest": "...the specific schedule/fault/sequence/input...", "existing_tests_run": "...commands + result lines...", "demo_cmd": "...", "demo_with_change": "fails: ...", "demo_without_change": "passes"}}.
6. When done, delete the build output (`rm -rf {wt}/target`) but KEEP the worktree directory with OUT/ and your changes for inspection. Your final message: the content of meta.json and the patch.
""")
