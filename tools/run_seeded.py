#!/usr/bin/env python3
"""run_seeded.py [<seeded id> ...]

For each kept seeded change under /verif/seeded/<id>/ (patch.diff + meta.json): apply it to
/repo (git apply), run the quick check(s) of the property it breaks, record whether the check
reported a violation, and undo it straight afterwards (git checkout of the touched files).
Nothing is ever committed to /repo. Results go to /verif/seeded/<id>/result.json and a summary
table is printed. Evidence files written during these runs are restored afterwards (they must
come from runs against the unchanged tree).
"""
import json, os, subprocess, sys, shutil, time

ROOT = "/verif"
SEEDED = os.path.join(ROOT, "seeded")


def sh(cmd, **kw):
    return subprocess.run(cmd, shell=True, text=True, stdout=subprocess.PIPE, stderr=subprocess.STDOUT, **kw)


def main():
    ids = sys.argv[1:] or sorted(d for d in os.listdir(SEEDED) if os.path.isfile(os.path.join(SEEDED, d, "patch.diff")))
    rows = []
    for sid in ids:
        d = os.path.join(SEEDED, sid)
        meta = json.load(open(os.path.join(d, "meta.json")))
        props = meta.get("checks") or [meta["property"]]
        patch = os.path.join(d, "patch.diff")
        if sh("git -C /repo status --porcelain --untracked-files=no").stdout.strip():
            print("refusing: /repo has uncommitted changes")
            return 2
        r = sh(f"git -C /repo apply --check {patch}")
        if r.returncode != 0:
            rows.append((sid, props, "patch does not apply", ""))
            continue
        sh(f"git -C /repo apply {patch}")
        backup = os.path.join(ROOT, "evidence.bak")
        shutil.rmtree(backup, ignore_errors=True)
        shutil.copytree(os.path.join(ROOT, "evidence"), backup)
        result = {"id": sid, "runs": []}
        try:
            for p in props:
                t0 = time.time()
                r = sh(f"{ROOT}/check {p} quick", cwd=ROOT)
                lines = [l for l in r.stdout.splitlines() if l.startswith(("VIOLATION", "violation", "HARNESS-ERROR", "KNOWN-FINDING"))]
                result["runs"].append({"property": p, "exit": r.returncode, "lines": lines[:6], "wall_s": round(time.time() - t0, 1)})
        finally:
            sh("git -C /repo checkout -- .")
            shutil.rmtree(os.path.join(ROOT, "evidence"), ignore_errors=True)
            shutil.move(backup, os.path.join(ROOT, "evidence"))
        caught = any(x["exit"] == 1 for x in result["runs"])
        result["caught"] = caught
        json.dump(result, open(os.path.join(d, "result.json"), "w"), indent=1)
        rows.append((sid, props, "CAUGHT" if caught else "missed", "; ".join(f"{x['property']}:exit{x['exit']}" for x in result["runs"])))
    print()
    for r in rows:
        print(f"{r[0]:28s} {','.join(r[1]):14s} {r[2]:8s} {r[3]}")
    return 0


if __name__ == "__main__":
    sys.exit(main())
