#!/usr/bin/env python3
"""run_seeded.py [--in-repo] [<seeded id> ...]

Runs the registered quick checks against kept seeded changes (/verif/seeded/<id>/patch.diff +
meta.json) and records whether each is caught (exit 1 + VIOLATION line).

Default mode (used while other people build against /repo): the patch is applied to a scratch
worktree (/tmp/seedrun-repo, `git -C /repo worktree add`), and the check runs in a private
mount namespace in which that worktree is bind-mounted over /repo (`unshare -m`), with its own
target dir (/verif/target-seeded) and evidence/replay dirs under /tmp, so neither /repo, nor
the committed evidence, nor anybody else's build is touched. From the check's point of view
this is exactly "git -C /repo apply <patch>".

--in-repo: the literal procedure of the brief: `git -C /repo apply`, run, `git -C /repo checkout -- .`
(refuses if /repo has uncommitted changes). Evidence files are backed up and restored.

Results: /verif/seeded/<id>/result.json and a summary table.
"""
import json, os, subprocess, sys, shutil, time

ROOT = "/verif"
SEEDED = os.path.join(ROOT, "seeded")
WT = "/tmp/seedrun-repo"


def sh(cmd, **kw):
    return subprocess.run(cmd, shell=True, text=True, stdout=subprocess.PIPE, stderr=subprocess.STDOUT, **kw)


def run_checks_ns(props):
    out = []
    os.makedirs("/tmp/seedrun-evidence", exist_ok=True)
    os.makedirs("/tmp/seedrun-replays", exist_ok=True)
    for p in props:
        t0 = time.time()
        inner = (f"mount --bind {WT} /repo && cd {ROOT} && VERIF_TARGET_DIR=/verif/target-seeded "
                 f"VERIF_EVIDENCE_DIR=/tmp/seedrun-evidence VERIF_REPLAY_DIR=/tmp/seedrun-replays ./check {p} quick")
        r = sh(f"unshare -m bash -c '{inner}'")
        lines = [l for l in r.stdout.splitlines() if l.startswith(("VIOLATION", "violation", "HARNESS-ERROR"))]
        out.append({"property": p, "exit": r.returncode, "lines": [l[:400] for l in lines[:4]], "wall_s": round(time.time() - t0, 1)})
    return out


def run_checks_repo(props):
    out = []
    for p in props:
        t0 = time.time()
        r = sh(f"{ROOT}/check {p} quick", cwd=ROOT)
        lines = [l for l in r.stdout.splitlines() if l.startswith(("VIOLATION", "violation", "HARNESS-ERROR"))]
        out.append({"property": p, "exit": r.returncode, "lines": [l[:400] for l in lines[:4]], "wall_s": round(time.time() - t0, 1)})
    return out


def main():
    args = sys.argv[1:]
    in_repo = "--in-repo" in args
    args = [a for a in args if a != "--in-repo"]
    ids = args or sorted(d for d in os.listdir(SEEDED) if os.path.isfile(os.path.join(SEEDED, d, "patch.diff")))
    rows = []
    for sid in ids:
        d = os.path.join(SEEDED, sid)
        meta = json.load(open(os.path.join(d, "meta.json")))
        props = meta.get("checks") or [meta["property"]]
        patch = os.path.join(d, "patch.diff")
        result = {"id": sid, "mode": "in-repo" if in_repo else "namespace"}
        if in_repo:
            if sh("git -C /repo status --porcelain --untracked-files=no").stdout.strip():
                print("refusing: /repo has uncommitted changes")
                return 2
            if sh(f"git -C /repo apply --check {patch}").returncode != 0:
                rows.append((sid, props, "patch does not apply", ""))
                continue
            sh(f"git -C /repo apply {patch}")
            backup = os.path.join(ROOT, "evidence.bak")
            shutil.rmtree(backup, ignore_errors=True)
            shutil.copytree(os.path.join(ROOT, "evidence"), backup)
            try:
                result["runs"] = run_checks_repo(props)
            finally:
                sh("git -C /repo checkout -- .")
                shutil.rmtree(os.path.join(ROOT, "evidence"), ignore_errors=True)
                shutil.move(backup, os.path.join(ROOT, "evidence"))
        else:
            # bring the scratch worktree to /repo's HEAD without touching file times needlessly
            sh(f"git -C {WT} checkout -q --detach $(git -C /repo rev-parse HEAD)")
            sh(f"git -C {WT} checkout -- .")
            if sh(f"git -C {WT} apply --check {patch}").returncode != 0:
                rows.append((sid, props, "patch does not apply", ""))
                continue
            sh(f"git -C {WT} apply {patch}")
            try:
                result["runs"] = run_checks_ns(props)
            finally:
                sh(f"git -C {WT} apply -R {patch}")
        caught = any(x["exit"] == 1 for x in result["runs"])
        result["caught"] = caught
        result["head"] = sh("git -C /repo rev-parse --short HEAD").stdout.strip()
        json.dump(result, open(os.path.join(d, "result.json"), "w"), indent=1)
        rows.append((sid, props, "CAUGHT" if caught else "missed", "; ".join(f"{x['property']}:exit{x['exit']}({x['wall_s']}s)" for x in result["runs"])))
        print(rows[-1], flush=True)
    print()
    for r in rows:
        print(f"{r[0]:28s} {','.join(r[1]):14s} {r[2]:8s} {r[3]}")
    return 0


if __name__ == "__main__":
    sys.exit(main())
