#!/usr/bin/env python3
"""Print the markdown table of kept seeded changes and which checks caught them."""
import json, os, glob
rows = []
for d in sorted(glob.glob('/verif/seeded/*')):
    mp = os.path.join(d, 'meta.json')
    if not os.path.exists(mp):
        continue
    m = json.load(open(mp))
    r = json.load(open(os.path.join(d, 'result.json'))) if os.path.exists(os.path.join(d, 'result.json')) else None
    sid = os.path.basename(d)
    origin = 'reverted fix' if sid.startswith('revert-') else ('author mutant' if sid.startswith('author-') else 'independent agent')
    conf = m.get('confirmed', {}).get('ok')
    conf_s = 'n/a' if sid.startswith(('revert-', 'author-')) else ('yes' if conf else ('NO' if conf is False else 'pending'))
    summ = (m.get('summary') or m.get('fix_subject') or '')
    summ = summ.replace('|', '/').replace('\n', ' ')
    if len(summ) > 150:
        summ = summ[:147] + '...'
    if r:
        res = '; '.join(f"{x['property']}: {'CAUGHT' if x['exit']==1 else ('harness error' if x['exit']==2 else 'missed')}" + (f" ({x['lines'][0].split('class=')[1].split(' ')[0]})" if x['exit']==1 and x['lines'] and 'class=' in x['lines'][0] else '') for x in r['runs'])
    else:
        res = 'not run'
    rows.append(f"| {sid} | {m.get('property')} | {origin} | {conf_s} | {summ} | {res} |")
print('| id | property | origin | demo confirmed | change | quick checks |')
print('|---|---|---|---|---|---|')
print('\n'.join(rows))
