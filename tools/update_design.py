#!/usr/bin/env python3
"""Refresh the generated seeded-change table inside DESIGN.md."""
import subprocess, re
p = '/verif/DESIGN.md'
s = open(p).read()
t = subprocess.run(['python3', '/verif/tools/seeded_table.py'], capture_output=True, text=True).stdout
s = re.sub(r'<!-- SEEDED-TABLE-BEGIN -->.*?<!-- SEEDED-TABLE-END -->', '<!-- SEEDED-TABLE-BEGIN -->\n' + t + '<!-- SEEDED-TABLE-END -->', s, flags=re.S)
open(p, 'w').write(s)
